// Derived from golang.org/x/tools/go/ssa/interp (BSD-style licence).

package main

import (
	"fmt"
	"go/constant"
	"go/token"
	"go/types"
	"strings"
	"unsafe"

	"golang.org/x/tools/go/ssa"
)

func constValue(c *ssa.Const) value {
	if c.Value == nil {
		return zero(c.Type())
	}
	if t, ok := c.Type().Underlying().(*types.Basic); ok {
		switch t.Kind() {
		case types.Bool, types.UntypedBool:
			return constant.BoolVal(c.Value)
		case types.Int, types.UntypedInt:
			return int(c.Int64())
		case types.Int8:
			return int8(c.Int64())
		case types.Int16:
			return int16(c.Int64())
		case types.Int32, types.UntypedRune:
			return int32(c.Int64())
		case types.Int64:
			return c.Int64()
		case types.Uint:
			return uint(c.Uint64())
		case types.Uint8:
			return uint8(c.Uint64())
		case types.Uint16:
			return uint16(c.Uint64())
		case types.Uint32:
			return uint32(c.Uint64())
		case types.Uint64:
			return c.Uint64()
		case types.Uintptr:
			return uintptr(c.Uint64())
		case types.Float32:
			return float32(c.Float64())
		case types.Float64, types.UntypedFloat:
			return c.Float64()
		case types.String, types.UntypedString:
			if c.Value.Kind() == constant.String {
				return constant.StringVal(c.Value)
			}
			return string(rune(c.Int64()))
		}
	}
	panic(engineError{fmt.Sprintf("constValue: %s", c)})
}

// ---- generic integer helpers ----

func intInfo(k types.BasicKind) (w uint8, signed bool) {
	switch k {
	case types.Int, types.Int64:
		return 64, true
	case types.Int8:
		return 8, true
	case types.Int16:
		return 16, true
	case types.Int32:
		return 32, true
	case types.Uint, types.Uint64, types.Uintptr:
		return 64, false
	case types.Uint8:
		return 8, false
	case types.Uint16:
		return 16, false
	case types.Uint32:
		return 32, false
	case types.Bool:
		return 0, false
	}
	panic(engineError{fmt.Sprintf("intInfo: kind %d", k)})
}

func toBits(v value) (uint64, types.BasicKind, bool) {
	switch x := v.(type) {
	case int:
		return uint64(x), types.Int, true
	case int8:
		return uint64(uint8(x)), types.Int8, true
	case int16:
		return uint64(uint16(x)), types.Int16, true
	case int32:
		return uint64(uint32(x)), types.Int32, true
	case int64:
		return uint64(x), types.Int64, true
	case uint:
		return uint64(x), types.Uint, true
	case uint8:
		return uint64(x), types.Uint8, true
	case uint16:
		return uint64(x), types.Uint16, true
	case uint32:
		return uint64(x), types.Uint32, true
	case uint64:
		return x, types.Uint64, true
	case uintptr:
		return uint64(x), types.Uintptr, true
	}
	return 0, 0, false
}

func fromBits(k types.BasicKind, b uint64) value {
	switch k {
	case types.Int:
		return int(b)
	case types.Int8:
		return int8(b)
	case types.Int16:
		return int16(b)
	case types.Int32:
		return int32(b)
	case types.Int64:
		return int64(b)
	case types.Uint:
		return uint(b)
	case types.Uint8:
		return uint8(b)
	case types.Uint16:
		return uint16(b)
	case types.Uint32:
		return uint32(b)
	case types.Uint64:
		return b
	case types.Uintptr:
		return uintptr(b)
	case types.Bool:
		return b != 0
	}
	panic(engineError{fmt.Sprintf("fromBits: kind %d", k)})
}

func basicKind(t types.Type) types.BasicKind {
	b, ok := t.Underlying().(*types.Basic)
	if !ok {
		return types.Invalid
	}
	k := b.Kind()
	switch k {
	case types.UntypedInt:
		return types.Int
	case types.UntypedRune:
		return types.Int32
	case types.UntypedBool:
		return types.Bool
	case types.UntypedFloat:
		return types.Float64
	case types.UntypedString:
		return types.String
	}
	return k
}

// termOf lifts a bool/integer value to a term.
func (ts *TermStore) termOf(v value) *Term {
	switch x := v.(type) {
	case sym:
		return x.t
	case bool:
		return ts.Bool(x)
	}
	b, k, ok := toBits(v)
	if !ok {
		panic(engineError{fmt.Sprintf("termOf: %T", v)})
	}
	w, _ := intInfo(k)
	return ts.Const(w, b)
}

func kindOfV(v value) types.BasicKind {
	switch x := v.(type) {
	case sym:
		return x.k
	case bool:
		return types.Bool
	}
	_, k, ok := toBits(v)
	if !ok {
		panic(engineError{fmt.Sprintf("kindOfV: %T", v)})
	}
	return k
}

// mkV turns a term back into a value (concrete when constant).
func mkV(t *Term, k types.BasicKind) value {
	if t.op == opConst {
		if t.w == 0 {
			return t.c != 0
		}
		return fromBits(k, t.c)
	}
	return sym{t, k}
}

// toI64 widens an integer symbolic value to a 64-bit term according to its signedness.
func (ts *TermStore) toI64(s sym) *Term {
	w, signed := intInfo(s.k)
	if w == 64 {
		return s.t
	}
	if signed {
		return ts.SExt(s.t, 64)
	}
	return ts.ZExt(s.t, 64)
}

func (ts *TermStore) symEq(x sym, y value) value {
	return mkV(ts.Cmp(opEq, x.t, ts.termOf(y)), types.Bool)
}

func asInt64(x value) int64 {
	switch x := x.(type) {
	case int:
		return int64(x)
	case int8:
		return int64(x)
	case int16:
		return int64(x)
	case int32:
		return int64(x)
	case int64:
		return x
	case uint:
		return int64(x)
	case uint8:
		return int64(x)
	case uint16:
		return int64(x)
	case uint32:
		return int64(x)
	case uint64:
		return int64(x)
	case uintptr:
		return int64(x)
	}
	panic(engineError{fmt.Sprintf("cannot convert %T to int64", x)})
}

func zero(t types.Type) value {
	switch t := t.(type) {
	case *types.Basic:
		if t.Info()&types.IsUntyped != 0 {
			t = types.Default(t).(*types.Basic)
		}
		switch t.Kind() {
		case types.Bool:
			return false
		case types.Int:
			return int(0)
		case types.Int8:
			return int8(0)
		case types.Int16:
			return int16(0)
		case types.Int32:
			return int32(0)
		case types.Int64:
			return int64(0)
		case types.Uint:
			return uint(0)
		case types.Uint8:
			return uint8(0)
		case types.Uint16:
			return uint16(0)
		case types.Uint32:
			return uint32(0)
		case types.Uint64:
			return uint64(0)
		case types.Uintptr:
			return uintptr(0)
		case types.Float32:
			return float32(0)
		case types.Float64:
			return float64(0)
		case types.String:
			return ""
		case types.UnsafePointer:
			return unsafe.Pointer(nil)
		case types.Complex64:
			return complex64(0)
		case types.Complex128:
			return complex128(0)
		default:
			panic(engineError{fmt.Sprint("zero for unexpected type:", t)})
		}
	case *types.Pointer:
		return (*value)(nil)
	case *types.Array:
		a := make(array, t.Len())
		for i := range a {
			a[i] = zero(t.Elem())
		}
		return a
	case *types.Named:
		return zero(t.Underlying())
	case *types.Alias:
		return zero(types.Unalias(t))
	case *types.Interface:
		return iface{}
	case *types.Slice:
		return []value(nil)
	case *types.Struct:
		s := make(structure, t.NumFields())
		for i := range s {
			s[i] = zero(t.Field(i).Type())
		}
		return s
	case *types.Tuple:
		if t.Len() == 1 {
			return zero(t.At(0).Type())
		}
		s := make(tuple, t.Len())
		for i := range s {
			s[i] = zero(t.At(i).Type())
		}
		return s
	case *types.Chan:
		return (*vchan)(nil)
	case *types.Map:
		return (*amap)(nil)
	case *types.Signature:
		return (*ssa.Function)(nil)
	case *types.TypeParam:
		panic(engineError{"zero of type parameter"})
	}
	panic(engineError{fmt.Sprint("zero: unexpected ", t)})
}

// sliceOp returns x[lo:hi:max] with explicit bounds checks; symbolic bounds
// are case-split.
func sliceOp(fr *frame, x, lo, hi, max value) value {
	var Len, Cap int
	switch x := x.(type) {
	case string:
		Len = len(x)
		Cap = Len
	case sstr:
		Len = len(x.b)
		Cap = Len
	case []value:
		Len = len(x)
		Cap = cap(x)
	case *value:
		if x == nil {
			rtPanic(fr, "invalid memory address or nil pointer dereference")
		}
		a := (*x).(array)
		Len = len(a)
		Cap = cap(a)
	}
	l := int64(0)
	if lo != nil {
		l = sliceBound(fr, lo, int64(Cap))
	}
	h := int64(Len)
	if hi != nil {
		h = sliceBound(fr, hi, int64(Cap))
	}
	m := int64(Cap)
	if max != nil {
		m = sliceBound(fr, max, int64(Cap))
	}
	if l < 0 || h < l || m < h || m > int64(Cap) {
		rtPanic(fr, fmt.Sprintf("slice bounds out of range [%d:%d:%d] with capacity %d", l, h, m, Cap))
	}
	switch x := x.(type) {
	case string:
		return x[l:h]
	case sstr:
		return mkStr(x.b[l:h])
	case []value:
		return x[l:h:m]
	case *value:
		a := (*x).(array)
		return []value(a)[l:h:m]
	}
	panic(engineError{fmt.Sprintf("slice: unexpected X type: %T", x)})
}

// sliceBound: a symbolic bound is first tested against [0, cap] (out of range
// ⇒ Go panic on that side), then case-split.
func sliceBound(fr *frame, v value, capv int64) int64 {
	if s, ok := v.(sym); ok {
		ts := fr.i.ts
		t := ts.toI64(s)
		inb := ts.And(ts.Cmp(opSle, ts.Const(64, 0), t), ts.Cmp(opSle, t, ts.Const(64, uint64(capv))))
		if !fr.i.px.Branch(fr, inb) {
			rtPanic(fr, fmt.Sprintf("slice bounds out of range [symbolic] with capacity %d", capv))
		}
		return fr.i.px.Pick(t, "slice@"+fr.where())
	}
	return asInt64(v)
}

func lookup(fr *frame, instr *ssa.Lookup, x, idx value) value {
	m, ok := x.(*amap)
	if !ok {
		panic(engineError{fmt.Sprintf("unexpected x type in Lookup: %T", x)})
	}
	fr.i.px.onMapRead(fr, m)
	var v value
	found := false
	if e := m.find(fr, idx); e != nil {
		v = e.v
		found = true
	} else {
		v = zero(instr.X.Type().Underlying().(*types.Map).Elem())
	}
	if instr.CommaOk {
		return tuple{v, found}
	}
	return v
}

var cmpSwap = map[token.Token]token.Token{token.GTR: token.LSS, token.GEQ: token.LEQ}

func isFloatV(v value) bool {
	switch v.(type) {
	case float32, float64, fhavoc:
		return true
	}
	return false
}

func isStringV(v value) bool {
	switch v.(type) {
	case string, sstr:
		return true
	}
	return false
}

func binop(fr *frame, op token.Token, t types.Type, x, y value) value {
	ts := fr.i.ts
	if op == token.EQL {
		return eqnil(fr, t, x, y)
	}
	if op == token.NEQ {
		return vNot(fr, eqnil(fr, t, x, y))
	}
	if isFloatV(x) || isFloatV(y) {
		return floatBinop(fr, op, x, y)
	}
	if isStringV(x) {
		return stringBinop(fr, op, x, y)
	}
	if s, ok := cmpSwap[op]; ok {
		op = s
		x, y = y, x
	}
	// shifts: operand kinds may differ
	if op == token.SHL || op == token.SHR {
		xk := kindOfV(x)
		w, signed := intInfo(xk)
		yk := kindOfV(y)
		_, ysigned := intInfo(yk)
		_, xs := x.(sym)
		_, ys := y.(sym)
		if !xs && !ys {
			xb, _, _ := toBits(x)
			yb, _, _ := toBits(y)
			if ysigned && sext64(yb, widthOf(yk)) < 0 {
				rtPanic(fr, "negative shift amount")
			}
			var r uint64
			if op == token.SHL {
				r = evalOp(opShl, w, xb&mask(w), yb, w)
			} else if signed {
				r = evalOp(opAShr, w, xb&mask(w), yb, w)
			} else {
				r = evalOp(opLShr, w, xb&mask(w), yb, w)
			}
			return fromBits(xk, r)
		}
		yt := ts.termOf(y)
		if ysigned {
			neg := ts.Cmp(opSlt, yt, ts.Const(yt.w, 0))
			if fr.i.px.Branch(fr, neg) {
				rtPanic(fr, "negative shift amount")
			}
		}
		y64 := ts.ZExt(yt, 64)
		xt := ts.termOf(x)
		var r *Term
		switch {
		case op == token.SHL:
			r = ts.Extract(ts.Bin(opShl, ts.ZExt(xt, 64), y64), w-1, 0)
		case signed:
			r = ts.Extract(ts.Bin(opAShr, ts.SExt(xt, 64), y64), w-1, 0)
		default:
			r = ts.Extract(ts.Bin(opLShr, ts.ZExt(xt, 64), y64), w-1, 0)
		}
		return mkV(r, xk)
	}

	k := kindOfV(x)
	if k == types.Bool {
		panic(engineError{"binop on bool: " + op.String()})
	}
	w, signed := intInfo(k)
	_, xs := x.(sym)
	_, ys := y.(sym)
	var top opKind
	isCmp := false
	switch op {
	case token.ADD:
		top = opAdd
	case token.SUB:
		top = opSub
	case token.MUL:
		top = opMul
	case token.QUO:
		top = opUDiv
		if signed {
			top = opSDiv
		}
	case token.REM:
		top = opURem
		if signed {
			top = opSRem
		}
	case token.AND:
		top = opAnd
	case token.OR:
		top = opOr
	case token.XOR:
		top = opXor
	case token.AND_NOT:
		top = opAnd
	case token.LSS:
		isCmp = true
		top = opUlt
		if signed {
			top = opSlt
		}
	case token.LEQ:
		isCmp = true
		top = opUle
		if signed {
			top = opSle
		}
	default:
		panic(engineError{"invalid binary op " + op.String()})
	}
	if !xs && !ys {
		xb, _, _ := toBits(x)
		yb, _, ok := toBits(y)
		if !ok {
			panic(engineError{fmt.Sprintf("binop %s: %T %T", op, x, y)})
		}
		xb &= mask(w)
		yb &= mask(w)
		if op == token.AND_NOT {
			yb = ^yb & mask(w)
		}
		if (op == token.QUO || op == token.REM) && yb == 0 {
			rtPanic(fr, "integer divide by zero")
		}
		if isCmp {
			return evalOp(top, 0, xb, yb, w) != 0
		}
		return fromBits(k, evalOp(top, w, xb, yb, w))
	}
	xt, yt := ts.termOf(x), ts.termOf(y)
	if op == token.AND_NOT {
		yt = ts.Not(yt)
	}
	if op == token.QUO || op == token.REM {
		if fr.i.px.Branch(fr, ts.Cmp(opEq, yt, ts.Const(w, 0))) {
			rtPanic(fr, "integer divide by zero")
		}
	}
	if isCmp {
		return mkV(ts.Cmp(top, xt, yt), types.Bool)
	}
	return mkV(ts.Bin(top, xt, yt), k)
}

func widthOf(k types.BasicKind) uint8 { w, _ := intInfo(k); return w }

func floatBinop(fr *frame, op token.Token, x, y value) value {
	_, xh := x.(fhavoc)
	_, yh := y.(fhavoc)
	if xh || yh {
		switch op {
		case token.LSS, token.LEQ, token.GTR, token.GEQ:
			fr.i.px.note("float-havoc")
			return sym{fr.i.px.freshVar(0, "fcmp"), types.Bool}
		}
		k := types.Float64
		if xh {
			k = x.(fhavoc).k
		} else {
			k = y.(fhavoc).k
		}
		fr.i.px.note("float-havoc")
		return fhavoc{k}
	}
	switch x := x.(type) {
	case float32:
		y := y.(float32)
		switch op {
		case token.ADD:
			return x + y
		case token.SUB:
			return x - y
		case token.MUL:
			return x * y
		case token.QUO:
			return x / y
		case token.LSS:
			return x < y
		case token.LEQ:
			return x <= y
		case token.GTR:
			return x > y
		case token.GEQ:
			return x >= y
		}
	case float64:
		y := y.(float64)
		switch op {
		case token.ADD:
			return x + y
		case token.SUB:
			return x - y
		case token.MUL:
			return x * y
		case token.QUO:
			return x / y
		case token.LSS:
			return x < y
		case token.LEQ:
			return x <= y
		case token.GTR:
			return x > y
		case token.GEQ:
			return x >= y
		}
	}
	panic(engineError{fmt.Sprintf("float binop %s %T %T", op, x, y)})
}

// ---- strings ----

func mkStr(b []value) value {
	conc := make([]byte, len(b))
	for i, e := range b {
		c, ok := e.(uint8)
		if !ok {
			cp := make([]value, len(b))
			copy(cp, b)
			return sstr{cp}
		}
		conc[i] = c
	}
	return string(conc)
}

func strBytes(v value) []value {
	switch s := v.(type) {
	case string:
		r := make([]value, len(s))
		for i := 0; i < len(s); i++ {
			r[i] = s[i]
		}
		return r
	case sstr:
		return s.b
	}
	panic(engineError{fmt.Sprintf("strBytes %T", v)})
}

func strEq(fr *frame, x, y value) value {
	a, b := strBytes(x), strBytes(y)
	if len(a) != len(b) {
		return false
	}
	return bytesEqTerm(fr, a, b)
}

func bytesEqTerm(fr *frame, a, b []value) value {
	ts := fr.i.ts
	acc := ts.tru
	for i := range a {
		acc = ts.And(acc, ts.Cmp(opEq, ts.termOf(a[i]), ts.termOf(b[i])))
		if acc == ts.fls {
			return false
		}
	}
	return mkV(acc, types.Bool)
}

// bytesCmpTerm returns the three-way comparison of a and b as an int value (-1,0,1).
func bytesCmpTerm(fr *frame, a, b []value) value {
	ts := fr.i.ts
	n := len(a)
	if len(b) < n {
		n = len(b)
	}
	var tail *Term
	switch {
	case len(a) < len(b):
		tail = ts.Const(64, ^uint64(0))
	case len(a) > len(b):
		tail = ts.Const(64, 1)
	default:
		tail = ts.Const(64, 0)
	}
	res := tail
	for i := n - 1; i >= 0; i-- {
		x, y := ts.termOf(a[i]), ts.termOf(b[i])
		res = ts.Ite(ts.Cmp(opEq, x, y), res,
			ts.Ite(ts.Cmp(opUlt, x, y), ts.Const(64, ^uint64(0)), ts.Const(64, 1)))
	}
	return mkV(res, types.Int)
}

func stringBinop(fr *frame, op token.Token, x, y value) value {
	xs, xok := x.(string)
	ys, yok := y.(string)
	if xok && yok {
		switch op {
		case token.ADD:
			return xs + ys
		case token.LSS:
			return xs < ys
		case token.LEQ:
			return xs <= ys
		case token.GTR:
			return xs > ys
		case token.GEQ:
			return xs >= ys
		}
	}
	if op == token.ADD {
		return mkStr(append(append([]value{}, strBytes(x)...), strBytes(y)...))
	}
	c := bytesCmpTerm(fr, strBytes(x), strBytes(y))
	var zeroV value = int(0)
	return binop(fr, op, types.Typ[types.Int], c, zeroV)
}

func eqnil(fr *frame, t types.Type, x, y value) value {
	switch t.Underlying().(type) {
	case *types.Map:
		return (x.(*amap) != nil) == (y.(*amap) != nil)
	case *types.Signature:
		return isNilFunc(x) == isNilFunc(y)
	case *types.Slice:
		return (x.([]value) != nil) == (y.([]value) != nil)
	}
	return equalsV(fr, t, x, y)
}

func isNilFunc(v value) bool {
	switch f := v.(type) {
	case *ssa.Function:
		return f == nil
	case *closure:
		return f == nil
	case *ssa.Builtin:
		return f == nil
	}
	return false
}

func unop(fr *frame, instr *ssa.UnOp, x value) value {
	ts := fr.i.ts
	switch instr.Op {
	case token.ARROW:
		return chanRecv(fr, instr, x)
	case token.SUB:
		switch x := x.(type) {
		case float32:
			return -x
		case float64:
			return -x
		case fhavoc:
			return x
		case sym:
			return mkV(ts.Neg(x.t), x.k)
		}
		b, k, _ := toBits(x)
		return fromBits(k, -b)
	case token.MUL:
		p := x.(*value)
		if p == nil {
			rtPanic(fr, "invalid memory address or nil pointer dereference")
		}
		fr.i.px.onLoad(fr, p)
		return load(deref(instr.X.Type()), p)
	case token.NOT:
		return vNot(fr, x)
	case token.XOR:
		if s, ok := x.(sym); ok {
			return mkV(ts.Not(s.t), s.k)
		}
		b, k, _ := toBits(x)
		return fromBits(k, ^b)
	}
	panic(engineError{fmt.Sprintf("invalid unary op %s %T", instr.Op, x)})
}

func typeAssert(fr *frame, instr *ssa.TypeAssert, itf iface) value {
	var v value
	err := ""
	if itf.t == nil {
		err = fmt.Sprintf("interface conversion: interface is nil, not %s", instr.AssertedType)
	} else if idst, ok := instr.AssertedType.Underlying().(*types.Interface); ok {
		v = itf
		if no, isNative := itf.v.(nativeObj); isNative {
			if !nativeImplements(no, idst) {
				err = fmt.Sprintf("interface conversion: native object is not %v", idst)
			}
		} else if meth, _ := types.MissingMethod(itf.t, idst, true); meth != nil {
			err = fmt.Sprintf("interface conversion: %v is not %v: missing method %s", itf.t, idst, meth.Name())
		}
	} else if types.Identical(itf.t, instr.AssertedType) {
		v = itf.v
	} else {
		err = fmt.Sprintf("interface conversion: interface is %s, not %s", itf.t, instr.AssertedType)
	}
	if err != "" {
		if !instr.CommaOk {
			rtPanic(fr, err)
		}
		return tuple{zero(instr.AssertedType), false}
	}
	if instr.CommaOk {
		return tuple{v, true}
	}
	return v
}

func callBuiltin(caller *frame, fn *ssa.Builtin, args []value) value {
	switch fn.Name() {
	case "append":
		if len(args) == 1 {
			return args[0]
		}
		base := args[0].([]value)
		var add []value
		if isStringV(args[1]) {
			add = strBytes(args[1])
		} else {
			add = args[1].([]value)
		}
		if len(base)+len(add) <= cap(base) {
			// appends in place: writes cells of the existing backing array
			caller.i.px.onBulkStore(caller, base[len(base):len(base)+len(add)])
		}
		return append(base, add...)

	case "copy":
		src := args[1]
		dst := args[0].([]value)
		var n int
		if isStringV(src) {
			n = copy(dst, strBytes(src))
		} else {
			n = copy(dst, src.([]value))
		}
		caller.i.px.onBulkStore(caller, dst[:n])
		return n

	case "close":
		chanClose(caller, args[0])
		return nil

	case "clear":
		switch x := args[0].(type) {
		case []value:
			if len(x) > 0 {
				var et types.Type
				if sig, ok := fn.Type().(*types.Signature); ok && sig.Params().Len() > 0 {
					if st, ok := sig.Params().At(0).Type().Underlying().(*types.Slice); ok {
						et = st.Elem()
					}
				}
				if et == nil {
					panic(engineError{"clear: element type of the slice not known"})
				}
				for i := range x {
					x[i] = zero(et)
				}
				caller.i.px.onBulkStore(caller, x)
			}
		case *amap:
			if x != nil {
				caller.i.px.onMapWrite(caller, x)
				for _, e := range x.ents {
					if !e.deleted {
						e.deleted = true
						x.n--
					}
				}
			}
		default:
			panic(engineError{"clear: unsupported operand"})
		}
		return nil

	case "delete":
		m := args[0].(*amap)
		if m != nil {
			caller.i.px.onMapWrite(caller, m)
			m.delete(caller, args[1])
		}
		return nil

	case "print", "println":
		return nil

	case "len":
		switch x := args[0].(type) {
		case string:
			return len(x)
		case sstr:
			return len(x.b)
		case array:
			return len(x)
		case *value:
			return len((*x).(array))
		case []value:
			return len(x)
		case *amap:
			return x.len()
		case *vchan:
			if x == nil {
				return 0
			}
			return len(x.q)
		default:
			panic(engineError{fmt.Sprintf("len: illegal operand: %T", x)})
		}

	case "cap":
		switch x := args[0].(type) {
		case array:
			return cap(x)
		case *value:
			return cap((*x).(array))
		case []value:
			return cap(x)
		case *vchan:
			if x == nil {
				return 0
			}
			return x.cap
		default:
			panic(engineError{fmt.Sprintf("cap: illegal operand: %T", x)})
		}

	case "min", "max":
		x := args[0]
		for _, y := range args[1:] {
			var lt value
			if fn.Name() == "min" {
				lt = binop(caller, token.LSS, nil, y, x)
			} else {
				lt = binop(caller, token.GTR, nil, y, x)
			}
			switch c := lt.(type) {
			case bool:
				if c {
					x = y
				}
			case sym:
				if isFloatV(x) || isFloatV(y) {
					x = fhavoc{types.Float64}
				} else {
					ts := caller.i.ts
					x = mkV(ts.Ite(c.t, ts.termOf(y), ts.termOf(x)), kindOfV(x))
				}
			}
		}
		return x

	case "panic":
		panic(targetPanic{v: args[0], where: caller.where()})

	case "recover":
		return doRecover(caller)

	case "ssa:wrapnilchk":
		recv := args[0]
		if recv.(*value) == nil {
			rtPanic(caller, fmt.Sprintf("value method (%s).%s called using nil pointer", toString(args[1]), toString(args[2])))
		}
		return recv

	case "ssa:deferstack":
		return &caller.defers
	}
	panic(engineError{"unknown built-in: " + fn.Name()})
}

func rangeIter(fr *frame, x value) iter {
	switch x := x.(type) {
	case *amap:
		fr.i.px.onMapRead(fr, x)
		return &amapIter{m: x}
	case string:
		return &stringIter{Reader: strings.NewReader(x)}
	case sstr:
		panic(pathEnd{kind: "inconclusive", msg: "range over a symbolic string at " + fr.where()})
	}
	panic(engineError{fmt.Sprintf("cannot range over %T", x)})
}

func conv(fr *frame, t_dst, t_src types.Type, x value) value {
	ut_src := t_src.Underlying()
	ut_dst := t_dst.Underlying()
	ts := fr.i.ts

	switch ut_src := ut_src.(type) {
	case *types.Pointer:
		if b, ok := ut_dst.(*types.Basic); ok && b.Kind() == types.UnsafePointer {
			return unsafe.Pointer(x.(*value))
		}
		if _, ok := ut_dst.(*types.Pointer); ok {
			return x
		}
	case *types.Slice:
		switch ut_dst.(type) {
		case *types.Slice:
			return x
		}
		switch ut_src.Elem().Underlying().(*types.Basic).Kind() {
		case types.Byte:
			return mkStr(x.([]value))
		case types.Rune:
			xs := x.([]value)
			r := make([]rune, 0, len(xs))
			for i := range xs {
				rv, ok := xs[i].(rune)
				if !ok {
					panic(pathEnd{kind: "inconclusive", msg: "[]rune→string with symbolic rune"})
				}
				r = append(r, rv)
			}
			return string(r)
		}
	case *types.Basic:
		dk := basicKind(t_dst)
		sk := basicKind(t_src)
		if isStringV(x) {
			switch ut_dst := ut_dst.(type) {
			case *types.Slice:
				switch ut_dst.Elem().Underlying().(*types.Basic).Kind() {
				case types.Rune:
					s, ok := x.(string)
					if !ok {
						panic(pathEnd{kind: "inconclusive", msg: "symbolic string→[]rune"})
					}
					var res []value
					for _, r := range []rune(s) {
						res = append(res, r)
					}
					return res
				case types.Byte:
					b := strBytes(x)
					res := make([]value, len(b))
					copy(res, b)
					return res
				}
			case *types.Basic:
				if ut_dst.Kind() == types.String {
					return x
				}
			}
			break
		}
		if ut_src.Kind() == types.UnsafePointer {
			return zero(t_dst)
		}
		if _, ok := ut_dst.(*types.Basic); !ok {
			break
		}
		if dk == types.String && ut_src.Info()&types.IsInteger != 0 {
			if _, ok := x.(sym); ok {
				panic(pathEnd{kind: "inconclusive", msg: "symbolic integer→string"})
			}
			return string(rune(asInt64(x)))
		}
		switch xv := x.(type) {
		case fhavoc:
			if dk == types.Float32 || dk == types.Float64 {
				return fhavoc{dk}
			}
			w, _ := intInfo(dk)
			fr.i.px.note("float-havoc")
			return sym{fr.i.px.freshVar(w, "f2i"), dk}
		case float32:
			return convFloat(float64(xv), dk)
		case float64:
			return convFloat(xv, dk)
		}
		if dk == types.Float32 || dk == types.Float64 {
			if _, ok := x.(sym); ok {
				fr.i.px.note("float-havoc")
				return fhavoc{dk}
			}
			b, k, _ := toBits(x)
			w, signed := intInfo(k)
			if signed {
				return convFloat(float64(sext64(b, w)), dk)
			}
			return convFloat(float64(b), dk)
		}
		sw, ssigned := intInfo(sk)
		dw, _ := intInfo(dk)
		if s, ok := x.(sym); ok {
			var r *Term
			switch {
			case dw <= sw:
				r = ts.Extract(s.t, dw-1, 0)
			case ssigned:
				r = ts.SExt(s.t, dw)
			default:
				r = ts.ZExt(s.t, dw)
			}
			return mkV(r, dk)
		}
		b, _, ok := toBits(x)
		if !ok {
			break
		}
		if ssigned {
			b = uint64(sext64(b&mask(sw), sw))
		}
		return fromBits(dk, b)
	}
	panic(engineError{fmt.Sprintf("unsupported conversion: %s  -> %s, dynamic type %T", t_src, t_dst, x)})
}

func convFloat(f float64, dk types.BasicKind) value {
	switch dk {
	case types.Float32:
		return float32(f)
	case types.Float64:
		return f
	case types.Int:
		return int(f)
	case types.Int8:
		return int8(f)
	case types.Int16:
		return int16(f)
	case types.Int32:
		return int32(f)
	case types.Int64:
		return int64(f)
	case types.Uint:
		return uint(f)
	case types.Uint8:
		return uint8(f)
	case types.Uint16:
		return uint16(f)
	case types.Uint32:
		return uint32(f)
	case types.Uint64:
		return uint64(f)
	case types.Uintptr:
		return uintptr(f)
	}
	panic(engineError{"convFloat"})
}

func sliceToArrayPointer(fr *frame, t_dst, t_src types.Type, x value) value {
	if ptr, ok := t_dst.Underlying().(*types.Pointer); ok {
		if arr, ok := ptr.Elem().Underlying().(*types.Array); ok {
			xs := x.([]value)
			if arr.Len() > int64(len(xs)) {
				rtPanic(fr, "cannot convert slice to array pointer: length too small")
			}
			if xs == nil {
				return zero(t_dst)
			}
			v := value(array(xs[:arr.Len()]))
			return &v
		}
	}
	panic(engineError{"unsupported slice to array pointer conversion"})
}
