// Derived from golang.org/x/tools/go/ssa/interp (BSD-style licence).

package main

// Values (boxed in `any`):
//   bool, int…uint64, uintptr, float32/64, string   concrete scalars
//   sym                                              symbolic bool / integer (term + Go kind)
//   fhavoc                                           unknown float (any value)
//   sstr                                             string with at least one symbolic byte
//   *amap                                            maps (association list, insertion ordered)
//   *vchan                                           channels (queue, no goroutines)
//   []value, iface, structure, array, *value, *ssa.Function, *ssa.Builtin, *closure, tuple, iter
//   handle (only behind a *value)                    *os.File / *mmap.ReaderAt stand-in
//   nativeObj (inside iface.v)                       errors, hash digests implemented in the engine

import (
	"bytes"
	"fmt"
	"go/types"
	"strings"

	"golang.org/x/tools/go/ssa"
)

type value any

type tuple []value

type array []value

type iface struct {
	t types.Type
	v value
}

type structure []value

type iter interface {
	next() tuple
}

type closure struct {
	Fn  *ssa.Function
	Env []value
}

type sym struct {
	t *Term
	k types.BasicKind // Bool, Int…Uintptr
}

type fhavoc struct{ k types.BasicKind }

type sstr struct{ b []value } // each element uint8 or sym(uint8)

type handle struct{ target value } // target: interpreted object whose methods are called

type nativeObj interface {
	callMethod(fr *frame, name string, args []value) value
}

type nativeMethod struct {
	obj  nativeObj
	name string
}

type targetPanic struct {
	v     value
	where string
}

func (p targetPanic) String() string { return toString(p.v) }

// pathEnd ends the current path: kind ∈ infeasible | inconclusive | stop
type pathEnd struct {
	kind string
	msg  string
}

type engineError struct{ msg string }

var errorIfaceType = types.Universe.Lookup("error").Type()

func sameType(x, y types.Type) bool {
	if x == nil {
		return y == nil
	}
	return y != nil && types.Identical(x, y)
}

// equalsV returns x == y for type t as a bool or a symbolic bool.
func equalsV(fr *frame, t types.Type, x, y value) value {
	ts := fr.i.ts
	switch x := x.(type) {
	case sym:
		return ts.symEq(x, y)
	case fhavoc:
		return fr.i.px.freshBool("feq")
	case sstr:
		return strEq(fr, x, y)
	case string:
		if ys, ok := y.(sstr); ok {
			return strEq(fr, x, ys)
		}
		return x == y.(string)
	case *value:
		return x == y.(*value)
	case *vchan:
		return x == y.(*vchan)
	case structure:
		y := y.(structure)
		tStruct := t.Underlying().(*types.Struct)
		var acc value = true
		for i, n := 0, tStruct.NumFields(); i < n; i++ {
			if f := tStruct.Field(i); f.Name() != "_" {
				acc = vAnd(fr, acc, equalsV(fr, f.Type(), x[i], y[i]))
				if acc == false {
					return false
				}
			}
		}
		return acc
	case array:
		y := y.(array)
		tElt := t.Underlying().(*types.Array).Elem()
		var acc value = true
		for i := range x {
			acc = vAnd(fr, acc, equalsV(fr, tElt, x[i], y[i]))
			if acc == false {
				return false
			}
		}
		return acc
	case iface:
		y := y.(iface)
		if !sameType(x.t, y.t) {
			return false
		}
		if x.t == nil {
			return true
		}
		if xn, ok := x.v.(nativeObj); ok {
			yn, _ := y.v.(nativeObj)
			return xn == yn
		}
		return equalsV(fr, x.t, x.v, y.v)
	case nativeObj:
		yn, _ := y.(nativeObj)
		return x == yn
	}
	if _, ok := y.(sym); ok {
		return ts.symEq(y.(sym), x)
	}
	if _, ok := y.(fhavoc); ok {
		return fr.i.px.freshBool("feq")
	}
	switch x := x.(type) {
	case bool:
		return x == y.(bool)
	case float32:
		return x == y.(float32)
	case float64:
		return x == y.(float64)
	}
	if xb, _, ok := toBits(x); ok {
		yb, _, ok2 := toBits(y)
		if !ok2 {
			panic(engineError{fmt.Sprintf("equals: %T vs %T", x, y)})
		}
		return xb == yb
	}
	panic(engineError{fmt.Sprintf("comparing uncomparable type %s (%T)", t, x)})
}

func vAnd(fr *frame, a, b value) value {
	ab, aok := a.(bool)
	bb, bok := b.(bool)
	switch {
	case aok && bok:
		return ab && bb
	case aok:
		if !ab {
			return false
		}
		return b
	case bok:
		if !bb {
			return false
		}
		return a
	}
	return sym{fr.i.ts.And(a.(sym).t, b.(sym).t), types.Bool}
}

func vNot(fr *frame, a value) value {
	if b, ok := a.(bool); ok {
		return !b
	}
	return sym{fr.i.ts.Not(a.(sym).t), types.Bool}
}

func load(T types.Type, addr *value) value {
	switch T := T.Underlying().(type) {
	case *types.Struct:
		v := (*addr).(structure)
		a := make(structure, len(v))
		for i := range a {
			a[i] = load(T.Field(i).Type(), &v[i])
		}
		return a
	case *types.Array:
		v := (*addr).(array)
		a := make(array, len(v))
		for i := range a {
			a[i] = load(T.Elem(), &v[i])
		}
		return a
	default:
		return *addr
	}
}

func store(T types.Type, addr *value, v value) {
	switch T := T.Underlying().(type) {
	case *types.Struct:
		lhs := (*addr).(structure)
		rhs := v.(structure)
		for i := range lhs {
			store(T.Field(i).Type(), &lhs[i], rhs[i])
		}
	case *types.Array:
		lhs := (*addr).(array)
		rhs := v.(array)
		for i := range lhs {
			store(T.Elem(), &lhs[i], rhs[i])
		}
	default:
		*addr = v
	}
}

func writeValue(buf *bytes.Buffer, v value) {
	switch v := v.(type) {
	case nil, bool, int, int8, int16, int32, int64, uint, uint8, uint16, uint32, uint64, uintptr, float32, float64, string:
		fmt.Fprintf(buf, "%v", v)
	case sym:
		buf.WriteString("<" + v.t.String() + ">")
	case fhavoc:
		buf.WriteString("<float?>")
	case sstr:
		buf.WriteString("<symbolic string>")
	case *amap:
		buf.WriteString("map[…]")
	case *value:
		if v == nil {
			buf.WriteString("<nil>")
		} else {
			fmt.Fprintf(buf, "%p", v)
		}
	case iface:
		if s, ok := v.v.(string); ok {
			buf.WriteString(s)
			return
		}
		if ne, ok := v.v.(*nativeErr); ok {
			buf.WriteString(ne.msg)
			return
		}
		fmt.Fprintf(buf, "(%s, ", v.t)
		writeValue(buf, v.v)
		buf.WriteString(")")
	case structure:
		buf.WriteString("{")
		for i, e := range v {
			if i > 0 {
				buf.WriteString(" ")
			}
			writeValue(buf, e)
		}
		buf.WriteString("}")
	case array:
		buf.WriteString("[")
		for i, e := range v {
			if i > 0 {
				buf.WriteString(" ")
			}
			writeValue(buf, e)
		}
		buf.WriteString("]")
	case []value:
		buf.WriteString("[")
		for i, e := range v {
			if i > 0 {
				buf.WriteString(" ")
			}
			if i > 32 {
				buf.WriteString("…")
				break
			}
			writeValue(buf, e)
		}
		buf.WriteString("]")
	case *ssa.Function, *ssa.Builtin, *closure:
		fmt.Fprintf(buf, "%p", v)
	case tuple:
		buf.WriteString("(")
		for i, e := range v {
			if i > 0 {
				buf.WriteString(", ")
			}
			writeValue(buf, e)
		}
		buf.WriteString(")")
	default:
		fmt.Fprintf(buf, "<%T>", v)
	}
}

func toString(v value) string {
	var b bytes.Buffer
	writeValue(&b, v)
	return b.String()
}

// ------------------------------------------------------------------------
// Iterators

type stringIter struct {
	*strings.Reader
	i int
}

func (it *stringIter) next() tuple {
	okv := make(tuple, 3)
	ch, n, err := it.ReadRune()
	ok := err == nil
	okv[0] = ok
	if ok {
		okv[1] = it.i
		okv[2] = ch
	}
	it.i += n
	return okv
}

type amapIter struct {
	m *amap
	i int
}

func (it *amapIter) next() tuple {
	for it.m != nil && it.i < len(it.m.ents) {
		e := it.m.ents[it.i]
		it.i++
		if e.deleted {
			continue
		}
		return tuple{true, e.k, e.v}
	}
	return tuple{false, nil, nil}
}
