// gosx: bounded symbolic execution of Go SSA (built from /repo's current
// working tree on every run) with an SMT solver deciding every symbolic
// branch, run-time check and harness assertion.
package main

import (
	"encoding/json"
	"flag"
	"fmt"
	"os"
	"path/filepath"
	"sort"
	"strings"
	"sync"
	"time"

	"golang.org/x/tools/go/packages"
	"golang.org/x/tools/go/ssa"
	"golang.org/x/tools/go/ssa/ssautil"
)

type Result struct {
	Harness       string           `json:"harness"`
	Pkg           string           `json:"pkg"`
	Paths         int64            `json:"paths"`
	Feasible      int64            `json:"feasible"`
	Infeasible    int64            `json:"infeasible"`
	StopPaths     int64            `json:"stop_paths"`
	Steps         int64            `json:"ssa_steps"`
	MaxPathSteps  int64            `json:"max_path_steps"`
	Nontrivial    int64            `json:"nontrivial_paths"`
	Branches      int64            `json:"symbolic_branches"`
	AssertQueries int64            `json:"assert_queries"`
	Sat           int              `json:"sat"`
	Unsat         int              `json:"unsat"`
	Unknown       int              `json:"unknown"`
	SolverErrors  int              `json:"solver_errors"`
	SolverS       float64          `json:"solver_s"`
	WallS         float64          `json:"wall_s"`
	LoadS         float64          `json:"load_s"`
	Inconclusive  map[string]int   `json:"inconclusive"`
	Violations    []*Violation     `json:"violations"`
	ViolationHits map[string]int   `json:"violation_hits"`
	Reach         map[string]int   `json:"reach"`
	Notes         map[string]int   `json:"notes"`
	Samples       []map[string]any `json:"samples"`
	Validate      []map[string]any `json:"validate"`
	Functions     []string         `json:"functions_encoded"`
	Stubs         map[string]int   `json:"stubs"`
	EngineErrors  []string         `json:"engine_errors,omitempty"`
	Bounds        map[string]any   `json:"bounds"`
	Solver        string           `json:"solver"`
}

func main() {
	cfg := &Config{}
	flag.StringVar(&cfg.Repo, "repo", "/repo", "repository root")
	flag.StringVar(&cfg.Module, "module", "github.com/thomasjungblut/go-sstables", "module path")
	flag.StringVar(&cfg.HarnessDir, "harness", "/verif/harness", "harness directory (sub-directory per package, relative to the module root)")
	flag.StringVar(&cfg.Pkg, "pkg", "", "package (relative to module root) that holds the harness")
	flag.StringVar(&cfg.Func, "fn", "", "harness function name(s), comma separated")
	flag.IntVar(&cfg.Workers, "workers", 16, "worker count")
	flag.Int64Var(&cfg.MaxSteps, "max-steps", 2_000_000, "SSA steps per path")
	flag.Int64Var(&cfg.MaxPaths, "max-paths", 2_000_000, "paths per harness")
	flag.IntVar(&cfg.MaxSeconds, "max-seconds", 900, "wall time per harness")
	flag.IntVar(&cfg.QueryTimeoutMs, "query-timeout-ms", 20000, "solver time per query")
	flag.StringVar(&cfg.Solver, "solver", "z3", "z3 | z3-new | cvc5")
	flag.StringVar(&cfg.SolverLog, "solver-log", "", "write SMT-LIB traffic to this path prefix")
	flag.IntVar(&cfg.Samples, "samples", 5, "sample vectors to report")
	flag.IntVar(&cfg.Validate, "validate", 6, "paths to hand to native validation")
	flag.IntVar(&cfg.Seed, "seed", 0, "seed")
	flag.BoolVar(&cfg.Trace, "trace", false, "trace instructions")
	flag.StringVar(&cfg.Out, "out", "", "result JSON path (default stdout)")
	listOnly := flag.Bool("list", false, "list harness functions of the package and exit")
	flag.Parse()

	t0 := time.Now()
	prog, pkgs, err := loadProgram(cfg)
	if err != nil {
		fmt.Fprintln(os.Stderr, "LOAD-ERROR:", err)
		os.Exit(4)
	}
	loadS := time.Since(t0).Seconds()

	var hp *ssa.Package
	for _, p := range pkgs {
		if p != nil && p.Pkg.Path() == cfg.Module+"/"+cfg.Pkg {
			hp = p
		}
	}
	if hp == nil {
		fmt.Fprintln(os.Stderr, "LOAD-ERROR: package not found:", cfg.Pkg)
		os.Exit(4)
	}
	if *listOnly {
		for name, m := range hp.Members {
			if f, ok := m.(*ssa.Function); ok && strings.HasPrefix(name, "H_") {
				fmt.Println(f.Name())
			}
		}
		return
	}
	var results []*Result
	for _, fname := range strings.Split(cfg.Func, ",") {
		fn := hp.Func(fname)
		if fn == nil {
			fmt.Fprintln(os.Stderr, "LOAD-ERROR: harness function not found:", fname)
			os.Exit(4)
		}
		r := explore(prog, fn, cfg)
		r.LoadS = loadS
		r.Pkg = cfg.Pkg
		results = append(results, r)
	}
	out, _ := json.MarshalIndent(results, "", " ")
	if cfg.Out != "" {
		os.WriteFile(cfg.Out, out, 0o644)
	} else {
		os.Stdout.Write(out)
		fmt.Println()
	}
}

func loadProgram(cfg *Config) (*ssa.Program, []*ssa.Package, error) {
	overlay := map[string][]byte{}
	// harness files: <harnessDir>/<pkg path>/*.go  →  <repo>/<pkg path>/
	var patterns []string
	err := filepath.Walk(cfg.HarnessDir, func(p string, info os.FileInfo, err error) error {
		if err != nil {
			return err
		}
		if info.IsDir() || !strings.HasSuffix(p, ".go") {
			return nil
		}
		rel, _ := filepath.Rel(cfg.HarnessDir, p)
		if strings.HasSuffix(p, "_test.go") {
			return nil // native replay drivers
		}
		b, err := os.ReadFile(p)
		if err != nil {
			return err
		}
		overlay[filepath.Join(cfg.Repo, rel)] = b
		return nil
	})
	if err != nil {
		return nil, nil, err
	}
	patterns = append(patterns, "./"+cfg.Pkg, "./vrt")
	pc := &packages.Config{
		Mode:       packages.LoadAllSyntax,
		Dir:        cfg.Repo,
		Overlay:    overlay,
		BuildFlags: []string{"-tags=verif,noasm"},
		Env:        append(os.Environ(), "PATH=/opt/veriftools/go1.26.8/bin:"+os.Getenv("PATH"), "GOFLAGS=-mod=mod", "GOPROXY=off", "GOTOOLCHAIN=local"),
	}
	initial, err := packages.Load(pc, patterns...)
	if err != nil {
		return nil, nil, err
	}
	nerr := 0
	packages.Visit(initial, nil, func(p *packages.Package) {
		for _, e := range p.Errors {
			if nerr < 20 {
				fmt.Fprintln(os.Stderr, "LOAD:", e)
			}
			nerr++
		}
	})
	if nerr > 0 {
		return nil, nil, fmt.Errorf("%d package errors", nerr)
	}
	prog, pkgs := ssautil.AllPackages(initial, ssa.InstantiateGenerics)
	prog.Build()
	return prog, pkgs, nil
}

func explore(prog *ssa.Program, fn *ssa.Function, cfg *Config) *Result {
	t0 := time.Now()
	ex := &Explorer{prog: prog, fn: fn, harness: cfg.Pkg + "." + fn.Name(), cfg: cfg,
		inconclusive: map[string]int{}, violations: map[string]*Violation{}, violationCount: map[string]int{},
		reach: map[string]int{}, notes: map[string]int{}, funcs: map[string]bool{}, stubs: map[string]int{},
		distinct: map[string]bool{}}
	ex.cond = sync.NewCond(&ex.mu)
	if cfg.MaxSeconds > 0 {
		ex.deadline = t0.Add(time.Duration(cfg.MaxSeconds) * time.Second)
	}
	ex.stack = append(ex.stack, WorkItem{})
	var wg sync.WaitGroup
	for i := 0; i < cfg.Workers; i++ {
		wg.Add(1)
		go func(id int) {
			defer wg.Done()
			ex.runWorker(id)
		}(i)
	}
	wg.Wait()
	r := &Result{Harness: ex.harness, Paths: ex.paths, Feasible: ex.feasible, Infeasible: ex.infeasible,
		StopPaths: ex.stopPaths, Steps: ex.steps, MaxPathSteps: ex.maxPathSteps, Nontrivial: ex.nontrivial,
		Branches: ex.branches.get(), AssertQueries: ex.assertQueries.get(),
		Sat: ex.sat, Unsat: ex.unsat, Unknown: ex.unk, SolverErrors: ex.serr, SolverS: ex.solverS,
		WallS: time.Since(t0).Seconds(), Inconclusive: ex.inconclusive, ViolationHits: ex.violationCount,
		Reach: ex.reach, Notes: ex.notes, Samples: ex.samples, Validate: ex.validate, Stubs: ex.stubs,
		EngineErrors: ex.engineErrors, Solver: cfg.Solver,
		Bounds: map[string]any{"max_steps_per_path": cfg.MaxSteps, "max_paths": cfg.MaxPaths,
			"max_seconds": cfg.MaxSeconds, "query_timeout_ms": cfg.QueryTimeoutMs, "max_pick_values": maxPick}}
	for _, v := range ex.violations {
		r.Violations = append(r.Violations, v)
	}
	sort.Slice(r.Violations, func(i, j int) bool { return r.Violations[i].Signature() < r.Violations[j].Signature() })
	for f := range ex.funcs {
		r.Functions = append(r.Functions, f)
	}
	sort.Strings(r.Functions)
	if ex.serr > 0 {
		r.Inconclusive[fmt.Sprintf("solver reported %d errors (last: %s)", ex.serr, lastSolverError)]++
	}
	return r
}
