package main

// Stub / intrinsic table, keyed by ssa.Function.String().

import (
	"fmt"
	"go/token"
	"go/types"
	"hash/crc32"
	"hash/crc64"
	"hash/fnv"
	"os"
	"path"
	"path/filepath"
	"sort"
	"strconv"
	"strings"

	"golang.org/x/tools/go/ssa"
)

type externalFn func(fr *frame, args []value) value

var externals = map[string]externalFn{}

const vrtPkg = "github.com/thomasjungblut/go-sstables/vrt."

func reg(name string, f externalFn) { externals[name] = f }

// ---- conversions between interpreter values and host values ----

func goString(v value) (string, bool) {
	s, ok := v.(string)
	return s, ok
}

func mustGoString(fr *frame, v value, what string) string {
	s, ok := v.(string)
	if !ok {
		panic(pathEnd{kind: "inconclusive", msg: what + ": symbolic string at " + fr.where()})
	}
	return s
}

func goBytes(v []value) ([]byte, bool) {
	b := make([]byte, len(v))
	for i, e := range v {
		c, ok := e.(uint8)
		if !ok {
			return nil, false
		}
		b[i] = c
	}
	return b, true
}

func fromGoBytes(b []byte) []value {
	if b == nil {
		return nil
	}
	r := make([]value, len(b))
	for i, c := range b {
		r[i] = c
	}
	return r
}

func strSlice(fr *frame, v value, what string) []string {
	xs := v.([]value)
	out := make([]string, len(xs))
	for i, x := range xs {
		out[i] = mustGoString(fr, x, what)
	}
	return out
}

func fromStrSlice(ss []string) []value {
	out := make([]value, len(ss))
	for i, s := range ss {
		out[i] = s
	}
	return out
}

// ---- native errors ----

type nativeErr struct {
	msg     string
	wrapped []iface
}

func (e *nativeErr) Error() string { return e.msg }

var nativeErrType = types.NewPointer(types.NewNamed(types.NewTypeName(0, nil, "gosx.nativeError", nil), types.NewStruct(nil, nil), nil))

func newNativeErr(msg string, wrapped []iface) iface {
	return iface{t: nativeErrType, v: &nativeErr{msg: msg, wrapped: wrapped}}
}

func (e *nativeErr) callMethod(fr *frame, name string, args []value) value {
	switch name {
	case "Error":
		return e.msg
	case "Unwrap":
		if len(e.wrapped) == 1 {
			return e.wrapped[0]
		}
		return iface{}
	}
	panic(engineError{"nativeErr: no method " + name})
}

func (e *nativeErr) hasMethod(name string) bool { return name == "Error" || name == "Unwrap" }

func nativeImplements(o nativeObj, it *types.Interface) bool {
	type hm interface{ hasMethod(string) bool }
	h, ok := o.(hm)
	for i := 0; i < it.NumMethods(); i++ {
		if !ok || !h.hasMethod(it.Method(i).Name()) {
			return false
		}
	}
	return true
}

// findMethod returns the interpreted method called name of the dynamic type of x, if any.
func findMethod(fr *frame, x iface, name string) *ssa.Function {
	if x.t == nil {
		return nil
	}
	if _, ok := x.v.(nativeObj); ok {
		return nil
	}
	ms := fr.i.prog.MethodSets.MethodSet(x.t)
	for i := 0; i < ms.Len(); i++ {
		if ms.At(i).Obj().Name() == name {
			return fr.i.prog.MethodValue(ms.At(i))
		}
	}
	return nil
}

func errorString(fr *frame, e iface) string {
	if e.t == nil {
		return "<nil>"
	}
	if ne, ok := e.v.(*nativeErr); ok {
		return ne.msg
	}
	if m := findMethod(fr, e, "Error"); m != nil {
		r := call(fr.i, fr, 0, m, []value{e.v})
		if s, ok := r.(string); ok {
			return s
		}
		return "<symbolic error text>"
	}
	return "<error>"
}

func unwrapAll(fr *frame, e iface) []iface {
	if ne, ok := e.v.(*nativeErr); ok {
		return ne.wrapped
	}
	if m := findMethod(fr, e, "Unwrap"); m != nil {
		r := call(fr.i, fr, 0, m, []value{e.v})
		switch r := r.(type) {
		case iface:
			if r.t != nil {
				return []iface{r}
			}
		case []value:
			var out []iface
			for _, x := range r {
				out = append(out, x.(iface))
			}
			return out
		}
	}
	return nil
}

func errIs(fr *frame, err, target iface) bool {
	if err.t == nil {
		return target.t == nil
	}
	if sameType(err.t, target.t) && types.Comparable(err.t) {
		if fr.i.px.BranchV(fr, equalsV(fr, errorIfaceType, err, target)) {
			return true
		}
	}
	if m := findMethod(fr, err, "Is"); m != nil {
		if fr.i.px.BranchV(fr, call(fr.i, fr, 0, m, []value{err.v, target})) {
			return true
		}
	}
	for _, u := range unwrapAll(fr, err) {
		if errIs(fr, u, target) {
			return true
		}
	}
	return false
}

// fmtArg converts an interpreter value for host fmt.
func fmtArg(fr *frame, a value) any {
	switch x := a.(type) {
	case iface:
		if x.t == nil {
			return nil
		}
		if ne, ok := x.v.(*nativeErr); ok {
			return ne
		}
		if types.Implements(x.t, errorIfaceType.Underlying().(*types.Interface)) {
			return fmt.Errorf("%s", errorString(fr, x))
		}
		if m := findMethod(fr, x, "String"); m != nil && m.Signature.Params().Len() == 0 {
			r := call(fr.i, fr, 0, m, []value{x.v})
			if s, ok := r.(string); ok {
				return s
			}
		}
		return fmtArg(fr, x.v)
	case sym:
		return "<sym>"
	case sstr:
		return "<symstr>"
	case fhavoc:
		return "<float>"
	case []value:
		if b, ok := goBytes(x); ok && len(x) > 0 {
			if _, isB := x[0].(uint8); isB {
				return b
			}
		}
		out := make([]any, 0, len(x))
		for _, e := range x {
			out = append(out, fmtArg(fr, e))
		}
		return out
	case *value:
		if x == nil {
			return nil
		}
		return "<ptr>"
	case structure:
		return "<struct>"
	case array:
		return "<array>"
	case *amap:
		return "<map>"
	case nil:
		return nil
	}
	return a
}

func doSprintf(fr *frame, format value, va value) (string, []iface) {
	f := mustGoString(fr, format, "fmt format")
	args := va.([]value)
	host := make([]any, len(args))
	for i, a := range args {
		host[i] = fmtArg(fr, a)
	}
	// find %w operands
	var wrapped []iface
	ai := 0
	for i := 0; i < len(f); i++ {
		if f[i] != '%' {
			continue
		}
		i++
		for i < len(f) && strings.IndexByte("+-# 0123456789.*[]", f[i]) >= 0 {
			i++
		}
		if i >= len(f) {
			break
		}
		if f[i] == '%' {
			continue
		}
		if f[i] == 'w' && ai < len(args) {
			if e, ok := args[ai].(iface); ok && e.t != nil {
				wrapped = append(wrapped, e)
			}
		}
		ai++
	}
	return fmt.Sprintf(strings.ReplaceAll(f, "%w", "%v"), host...), wrapped
}

// ---- checksum digests ----

type crcApp struct {
	alg  string
	args []value
	res  *Term
}

type digest struct {
	alg  string // crc32c, crc32ieee, crc64iso, crc64ecma, fnv64, fnv64a, fnv32, fnv32a
	data []value
	tab32 *crc32.Table
	tab64 *crc64.Table
}

func (d *digest) hasMethod(n string) bool {
	switch n {
	case "Write", "Sum32", "Sum64", "Reset", "Size", "BlockSize", "Sum":
		return true
	}
	return false
}

func (d *digest) width() uint8 {
	if strings.Contains(d.alg, "64") {
		return 64
	}
	return 32
}

func (d *digest) concrete(b []byte) uint64 {
	switch d.alg {
	case "crc32":
		return uint64(crc32.Checksum(b, d.tab32))
	case "crc64":
		return crc64.Checksum(b, d.tab64)
	case "fnv64":
		h := fnv.New64()
		h.Write(b)
		return h.Sum64()
	case "fnv64a":
		h := fnv.New64a()
		h.Write(b)
		return h.Sum64()
	case "fnv32":
		h := fnv.New32()
		h.Write(b)
		return uint64(h.Sum32())
	case "fnv32a":
		h := fnv.New32a()
		h.Write(b)
		return uint64(h.Sum32())
	}
	panic(engineError{"digest alg " + d.alg})
}

func (d *digest) algKey() string {
	switch d.alg {
	case "crc32":
		return fmt.Sprintf("crc32/%p", d.tab32)
	case "crc64":
		return fmt.Sprintf("crc64/%p", d.tab64)
	}
	return d.alg
}

// sum: real value when the input is concrete; otherwise an ideal checksum: a
// fresh variable constrained to be a function of the input that is injective
// on the applications made on this path, agrees with every concrete
// evaluation on this path, and (crc64) is zero exactly for the empty input.
func (d *digest) sum(fr *frame) value {
	px := fr.i.px
	ts := fr.i.ts
	w := d.width()
	kind := types.Uint32
	if w == 64 {
		kind = types.Uint64
	}
	if len(px.pins) > 0 {
		for i, a := range d.data {
			d.data[i] = px.pinned(a)
		}
	}
	if b, ok := goBytes(d.data); ok {
		r := d.concrete(b)
		rc := ts.Const(w, r)
		// tie earlier idealised applications (same algorithm and length) to this concrete evaluation: equal
		// inputs ⇔ equal results (an input that the path condition has meanwhile pinned must hash to the real value)
		for _, a := range px.crcApps {
			if a.alg != d.algKey() || len(a.args) != len(d.data) || a.res.op == opConst {
				continue
			}
			eq := ts.tru
			for i := range d.data {
				eq = ts.And(eq, ts.Cmp(opEq, ts.termOf(a.args[i]), ts.termOf(d.data[i])))
			}
			px.AddPC(ts.Cmp(opEq, eq, ts.Cmp(opEq, a.res, rc)), "ideal checksum agrees with concrete evaluation")
		}
		px.crcApps = append(px.crcApps, &crcApp{alg: d.algKey(), args: append([]value{}, d.data...), res: rc})
		return fromBits(kind, r)
	}
	// CRCs are affine over GF(2): with few symbolic bytes the exact value is
	//   crc(m) = crc(m with the symbolic bytes zeroed) ⊕ ⨁_{byte p, bit i} (bit ? lin(e_{p,i}) : 0)
	// where lin(e) = crc(e) ⊕ crc(0^L). No idealisation is needed then.
	if d.alg == "crc32" || d.alg == "crc64" {
		nsym := 0
		for _, a := range d.data {
			if _, ok := a.(sym); ok {
				nsym++
			}
		}
		if nsym <= 12 {
			L := len(d.data)
			base := make([]byte, L)
			for i, a := range d.data {
				if c, ok := a.(uint8); ok {
					base[i] = c
				}
			}
			zeroCrc := d.concrete(make([]byte, L))
			acc := ts.Const(w, d.concrete(base))
			unit := make([]byte, L)
			for p, a := range d.data {
				sa, ok := a.(sym)
				if !ok {
					continue
				}
				for i := uint8(0); i < 8; i++ {
					unit[p] = 1 << i
					lin := d.concrete(unit) ^ zeroCrc
					unit[p] = 0
					bit := ts.Cmp(opEq, ts.Extract(sa.t, i, i), ts.Const(1, 1))
					acc = ts.Bin(opXor, acc, ts.Ite(bit, ts.Const(w, lin), ts.Const(w, 0)))
				}
			}
			px.note("exact-linear-crc")
			// self-check under the current model
			conc := make([]byte, L)
			for i, a := range d.data {
				conc[i] = byte(px.eval(ts.termOf(a)))
			}
			if px.eval(acc) != d.concrete(conc) {
				panic(engineError{"linear CRC encoding disagrees with the library"})
			}
			return mkV(acc, kind)
		}
	}
	px.note("ideal-checksum")
	args := append([]value{}, d.data...)
	// identical argument list already applied on this path?
	for _, a := range px.crcApps {
		if a.alg == d.algKey() && len(a.args) == len(args) {
			same := true
			for i := range args {
				if ts.termOf(a.args[i]) != ts.termOf(args[i]) {
					same = false
					break
				}
			}
			if same {
				return mkV(a.res, kind)
			}
		}
	}
	res := px.freshVar(w, "cksum")
	// model value: the real checksum of the model's bytes (keeps the model valid)
	conc := make([]byte, len(args))
	for i, a := range args {
		conc[i] = byte(px.eval(ts.termOf(a)))
	}
	px.model[res.name] = d.concrete(conc)
	px.ev = nil
	for _, a := range px.crcApps {
		if a.alg != d.algKey() {
			continue
		}
		if len(a.args) != len(args) {
			px.AddPC(ts.Not(ts.Cmp(opEq, a.res, res)), "ideal checksum: different lengths differ")
			continue
		}
		eq := ts.tru
		for i := range args {
			eq = ts.And(eq, ts.Cmp(opEq, ts.termOf(a.args[i]), ts.termOf(args[i])))
		}
		px.AddPC(ts.Cmp(opEq, eq, ts.Cmp(opEq, a.res, res)), "ideal checksum: injective function")
	}
	if d.alg == "crc64" && len(args) > 0 {
		px.AddPC(ts.Not(ts.Cmp(opEq, res, ts.Const(w, 0))), "ideal checksum: non-empty input has non-zero crc64")
	}
	px.crcApps = append(px.crcApps, &crcApp{alg: d.algKey(), args: args, res: res})
	return sym{res, kind}
}

func (d *digest) callMethod(fr *frame, name string, args []value) value {
	if name == "Write" || name == "Reset" {
		if st := fr.i.px.shared; st != nil && st.frozen && st.natives[d] {
			if w, _ := fr.i.px.heldLocks(); len(w) == 0 {
				st.writes = append(st.writes, "hash state "+name+" at "+fr.caller.where())
			}
		}
	}
	switch name {
	case "Write":
		b := args[0].([]value)
		d.data = append(d.data, b...)
		return tuple{len(b), iface{}}
	case "Reset":
		d.data = nil
		return nil
	case "Sum32", "Sum64":
		return d.sum(fr)
	case "Size":
		return int(d.width() / 8)
	case "BlockSize":
		return 1
	}
	panic(pathEnd{kind: "inconclusive", msg: "digest method " + name})
}

var digestType = types.NewPointer(types.NewNamed(types.NewTypeName(0, nil, "gosx.digest", nil), types.NewStruct(nil, nil), nil))

type tableHandle struct {
	t32 *crc32.Table
	t64 *crc64.Table
}

var (
	tab32Cache = map[uint32]*crc32.Table{}
	tab64Cache = map[uint64]*crc64.Table{}
)

func init() {
	for _, p := range []uint32{crc32.IEEE, crc32.Castagnoli, crc32.Koopman} {
		tab32Cache[p] = crc32.MakeTable(p)
	}
	for _, p := range []uint64{crc64.ISO, crc64.ECMA} {
		tab64Cache[p] = crc64.MakeTable(p)
	}
}

func boolTerm(fr *frame, v value) *Term { return fr.i.ts.termOf(v) }

func init() {
	// ---------------- harness vocabulary ----------------
	reg(vrtPkg+"Symbolic", func(fr *frame, a []value) value { return true })
	symVar := func(w uint8, k types.BasicKind) externalFn {
		return func(fr *frame, a []value) value {
			key := mustGoString(fr, a[0], "nondet key")
			px := fr.i.px
			t := fr.i.ts.Var(w, key)
			for _, sk := range px.symKeys {
				if sk.key == key {
					panic(engineError{"duplicate nondet key " + key})
				}
			}
			px.symKeys = append(px.symKeys, symKey{key, t})
			return sym{t, k}
		}
	}
	reg(vrtPkg+"Byte", symVar(8, types.Uint8))
	reg(vrtPkg+"U16", symVar(16, types.Uint16))
	reg(vrtPkg+"U32", symVar(32, types.Uint32))
	reg(vrtPkg+"U64", symVar(64, types.Uint64))
	reg(vrtPkg+"Bool", symVar(0, types.Bool))
	reg(vrtPkg+"Int", func(fr *frame, a []value) value {
		key := mustGoString(fr, a[0], "nondet key")
		px := fr.i.px
		ts := fr.i.ts
		lo, hi := asInt64(a[1]), asInt64(a[2])
		t := ts.Var(64, key)
		px.symKeys = append(px.symKeys, symKey{key, t})
		if _, ok := px.model[key]; !ok {
			px.model[key] = uint64(lo)
			px.ev = nil
		}
		px.AddPC(ts.And(ts.Cmp(opSle, ts.Const(64, uint64(lo)), t), ts.Cmp(opSle, t, ts.Const(64, uint64(hi)))), "vrt.Int range")
		return sym{t, types.Int}
	})
	reg(vrtPkg+"Choose", func(fr *frame, a []value) value {
		key := mustGoString(fr, a[0], "nondet key")
		n := int(asInt64(a[1]))
		v := fr.i.px.Choose(key, n)
		fr.i.px.vector[key] = uint64(v)
		return v
	})
	reg(vrtPkg+"Concrete", func(fr *frame, a []value) value {
		if s, ok := a[0].(sym); ok {
			return int(fr.i.px.Pick(fr.i.ts.toI64(s), "vrt.Concrete@"+fr.where()))
		}
		return a[0]
	})
	reg(vrtPkg+"Assume", func(fr *frame, a []value) value {
		fr.i.px.AddPC(boolTerm(fr, a[0]), "assume at "+fr.caller.where())
		return nil
	})
	reg(vrtPkg+"Assert", func(fr *frame, a []value) value {
		fr.i.px.Assert(fr, a[0], mustGoString(fr, a[1], "assert id"))
		return nil
	})
	reg(vrtPkg+"Reach", func(fr *frame, a []value) value {
		fr.i.px.reach = append(fr.i.px.reach, mustGoString(fr, a[0], "reach id"))
		return nil
	})
	reg(vrtPkg+"Tag", func(fr *frame, a []value) value {
		tg := mustGoString(fr, a[0], "tag")
		for _, t := range fr.i.px.tags {
			if t == tg {
				return nil
			}
		}
		fr.i.px.tags = append(fr.i.px.tags, tg)
		return nil
	})
	reg(vrtPkg+"Trace", func(fr *frame, a []value) value {
		key := mustGoString(fr, a[0], "trace key")
		fr.i.px.trace = append(fr.i.px.trace, traceEnt{key: key, t: fr.i.ts.termOf(a[1])})
		return nil
	})
	reg(vrtPkg+"Note", func(fr *frame, a []value) value {
		s, _ := goString(a[0])
		fr.i.px.noteTexts = append(fr.i.px.noteTexts, s)
		return nil
	})
	reg(vrtPkg+"WaitGoroutineIdle", func(fr *frame, a []value) value { return nil })
	reg(vrtPkg+"ExpectPanic", func(fr *frame, a []value) value {
		fr.i.px.expectPanic = mustGoString(fr, a[0], "id")
		return nil
	})
	reg(vrtPkg+"Redirect", func(fr *frame, a []value) value {
		name := mustGoString(fr, a[0], "redirect name")
		f := a[1].(iface)
		fr.i.redirects[name] = f.v
		return nil
	})
	reg(vrtPkg+"OnSync", func(fr *frame, a []value) value {
		fr.i.px.setUser("onsync", a[0])
		return nil
	})
	reg(vrtPkg+"LocksHeld", func(fr *frame, a []value) value {
		w, r := fr.i.px.heldLocks()
		return len(w) + len(r)
	})
	reg(vrtPkg+"MutexFree", func(fr *frame, a []value) value {
		// a[0]: interface holding a *sync.Mutex / *sync.RWMutex
		p, ok := a[0].(iface).v.(*value)
		if !ok || p == nil {
			return true
		}
		l := fr.i.px.lockOf(p)
		l.ensure()
		return l.writerBy < 0 && l.readers() == 0
	})
	reg(vrtPkg+"OnBlock", func(fr *frame, a []value) value {
		fr.i.px.setUser("onblock", a[0])
		return nil
	})
	reg(vrtPkg+"And", func(fr *frame, a []value) value { return vAnd(fr, a[0], a[1]) })
	reg(vrtPkg+"Or", func(fr *frame, a []value) value { return vNot(fr, vAnd(fr, vNot(fr, a[0]), vNot(fr, a[1]))) })
	reg(vrtPkg+"Implies", func(fr *frame, a []value) value { return vNot(fr, vAnd(fr, a[0], vNot(fr, a[1]))) })
	reg(vrtPkg+"IteU64", func(fr *frame, a []value) value {
		ts := fr.i.ts
		return mkV(ts.Ite(ts.termOf(a[0]), ts.termOf(a[1]), ts.termOf(a[2])), types.Uint64)
	})
	reg(vrtPkg+"EqBytes", func(fr *frame, a []value) value {
		x, y := a[0].([]value), a[1].([]value)
		if len(x) != len(y) {
			return false
		}
		return bytesEqTerm(fr, x, y)
	})
	reg(vrtPkg+"SameBytes", func(fr *frame, a []value) value {
		x, y := a[0].([]value), a[1].([]value)
		if (x == nil) != (y == nil) || len(x) != len(y) {
			return false
		}
		return bytesEqTerm(fr, x, y)
	})
	reg(vrtPkg+"CmpBytes", func(fr *frame, a []value) value {
		return bytesCmpTerm(fr, a[0].([]value), a[1].([]value))
	})
	mkHandle := func(fr *frame, a []value) value {
		v := value(handle{target: a[0]})
		return &v
	}
	reg(vrtPkg+"HandleFile", mkHandle)
	reg(vrtPkg+"HandleMmap", mkHandle)
	reg(vrtPkg+"HandleTarget", func(fr *frame, a []value) value {
		p := a[0].(*value)
		if p == nil {
			return iface{}
		}
		if h, ok := (*p).(handle); ok {
			return h.target
		}
		return iface{}
	})
	reg(vrtPkg+"EnumValues", func(fr *frame, a []value) value {
		pkgPath := mustGoString(fr, a[0], "EnumValues")
		typeName := mustGoString(fr, a[1], "EnumValues")
		var out []value
		for _, p := range fr.i.prog.AllPackages() {
			if p.Pkg.Path() != pkgPath {
				continue
			}
			var names []string
			for n := range p.Members {
				names = append(names, n)
			}
			sort.Strings(names)
			for _, n := range names {
				if c, ok := p.Members[n].(*ssa.NamedConst); ok {
					if nt, ok := c.Type().(*types.Named); ok && nt.Obj().Name() == typeName {
						out = append(out, c.Value.Int64())
					}
				}
			}
		}
		return out
	})
	reg(vrtPkg+"RunAs", func(fr *frame, a []value) value {
		px := fr.i.px
		prev := px.curThread
		px.curThread = int(asInt64(a[0]))
		defer func() { px.curThread = prev }()
		call(fr.i, fr, 0, a[1], nil)
		return nil
	})
	// TryRunAs: like RunAs, but if the call has to wait for a lock held by another model thread before it has done
	// anything, it is abandoned and false is returned (in a real run it would simply wait at that point).
	reg(vrtPkg+"TryRunAs", func(fr *frame, a []value) (res value) {
		px := fr.i.px
		prevThread, prevEffects, prevSched, prevBlock := px.curThread, px.tryEffects, px.inSched, px.inBlock
		px.curThread = int(asInt64(a[0]))
		px.tryDepth++
		px.tryEffects = 0
		defer func() {
			px.curThread = prevThread
			px.tryDepth--
			px.tryEffects = prevEffects
			if r := recover(); r != nil {
				if _, ok := r.(tryAbort); !ok {
					panic(r)
				}
				px.inSched, px.inBlock = prevSched, prevBlock
				res = false
			}
		}()
		call(fr.i, fr, 0, a[1], nil)
		return true
	})
	reg(vrtPkg+"Watch", func(fr *frame, a []value) value {
		px := fr.i.px
		if px.watch == nil {
			px.watch = &watchState{names: map[*value]string{}, acc: map[string][]watchAccess{}}
		}
		p := a[0].(iface).v.(*value)
		px.watch.names[p] = mustGoString(fr, a[1], "watch name")
		return nil
	})
	reg(vrtPkg+"WatchOn", func(fr *frame, a []value) value {
		if fr.i.px.watch != nil {
			fr.i.px.watch.on = a[0].(bool)
		}
		return nil
	})
	reg(vrtPkg+"WatchReport", func(fr *frame, a []value) value { return fromStrSlice(fr.i.px.watchReport()) })
	reg(vrtPkg+"Freeze", func(fr *frame, a []value) value {
		fr.i.px.freeze(a[0].([]value))
		return nil
	})
	reg(vrtPkg+"SharedWrites", func(fr *frame, a []value) value {
		if fr.i.px.shared == nil {
			return []value(nil)
		}
		return fromStrSlice(fr.i.px.shared.writes)
	})

	// ---------------- errors / fmt / log ----------------
	reg("errors.New", func(fr *frame, a []value) value {
		s, _ := goString(a[0])
		return newNativeErr(s, nil)
	})
	reg("errors.Is", func(fr *frame, a []value) value { return errIs(fr, a[0].(iface), a[1].(iface)) })
	reg("errors.As", func(fr *frame, a []value) value {
		err := a[0].(iface)
		tgt := a[1].(iface)
		pt, ok := tgt.t.Underlying().(*types.Pointer)
		if !ok || tgt.v.(*value) == nil {
			rtPanic(fr, "errors: target must be a non-nil pointer")
		}
		elem := pt.Elem()
		var walk func(e iface) bool
		walk = func(e iface) bool {
			if e.t == nil {
				return false
			}
			if _, isIface := elem.Underlying().(*types.Interface); isIface {
				if _, native := e.v.(nativeObj); !native && types.Implements(e.t, elem.Underlying().(*types.Interface)) {
					*tgt.v.(*value) = e
					return true
				}
			} else if types.Identical(e.t, elem) {
				store(elem, tgt.v.(*value), e.v)
				return true
			}
			if m := findMethod(fr, e, "As"); m != nil {
				if fr.i.px.BranchV(fr, call(fr.i, fr, 0, m, []value{e.v, tgt})) {
					return true
				}
			}
			for _, u := range unwrapAll(fr, e) {
				if walk(u) {
					return true
				}
			}
			return false
		}
		return walk(err)
	})
	reg("errors.Unwrap", func(fr *frame, a []value) value {
		u := unwrapAll(fr, a[0].(iface))
		if len(u) == 1 {
			return u[0]
		}
		return iface{}
	})
	reg("errors.Join", func(fr *frame, a []value) value {
		var parts []iface
		var msgs []string
		for _, e := range a[0].([]value) {
			ie := e.(iface)
			if ie.t != nil {
				parts = append(parts, ie)
				msgs = append(msgs, errorString(fr, ie))
			}
		}
		if len(parts) == 0 {
			return iface{}
		}
		return newNativeErr(strings.Join(msgs, "\n"), parts)
	})
	reg("fmt.Errorf", func(fr *frame, a []value) value {
		s, wrapped := doSprintf(fr, a[0], a[1])
		return newNativeErr(s, wrapped)
	})
	reg("fmt.Sprintf", func(fr *frame, a []value) value {
		s, _ := doSprintf(fr, a[0], a[1])
		return s
	})
	reg("fmt.Sprint", func(fr *frame, a []value) value {
		args := a[0].([]value)
		host := make([]any, len(args))
		for i, x := range args {
			host[i] = fmtArg(fr, x)
		}
		return fmt.Sprint(host...)
	})
	noop := func(fr *frame, a []value) value { return nil }
	for _, n := range []string{"log.Printf", "log.Println", "log.Print", "fmt.Println", "fmt.Printf", "fmt.Print",
		"runtime.SetFinalizer", "runtime.KeepAlive", "runtime.GC", "time.Sleep", "runtime.Gosched"} {
		nn := n
		if strings.HasPrefix(nn, "fmt.P") {
			reg(nn, func(fr *frame, a []value) value { return tuple{0, iface{}} })
		} else {
			reg(nn, noop)
		}
	}
	procStop := func(kind string) externalFn {
		return func(fr *frame, a []value) value {
			msg := kind
			if len(a) == 2 {
				if _, ok := a[0].(string); ok {
					msg, _ = doSprintf(fr, a[0], a[1])
				}
			}
			panic(targetPanic{v: iface{t: types.Typ[types.String], v: "PROCESS-STOP(" + kind + "): " + msg}, where: fr.caller.where()})
		}
	}
	reg("log.Panicf", procStop("log.Panicf"))
	reg("log.Fatalf", procStop("log.Fatalf"))
	reg("log.Panic", procStop("log.Panic"))
	reg("log.Fatal", procStop("log.Fatal"))
	reg("log.Panicln", procStop("log.Panicln"))
	reg("log.Fatalln", procStop("log.Fatalln"))
	reg("os.Exit", procStop("os.Exit"))

	// ---------------- bytes / bytealg ----------------
	cmpF := func(fr *frame, a []value) value { return bytesCmpTerm(fr, a[0].([]value), a[1].([]value)) }
	reg("bytes.Compare", cmpF)
	reg("internal/bytealg.Compare", cmpF)
	eqF := func(fr *frame, a []value) value {
		x, y := a[0].([]value), a[1].([]value)
		if len(x) != len(y) {
			return false
		}
		return bytesEqTerm(fr, x, y)
	}
	reg("bytes.Equal", eqF)
	reg("internal/bytealg.Equal", eqF)
	reg("internal/bytealg.IndexByte", func(fr *frame, a []value) value {
		b := a[0].([]value)
		for i, e := range b {
			if fr.i.px.BranchV(fr, equalsV(fr, types.Typ[types.Uint8], e, a[1])) {
				return i
			}
		}
		return -1
	})
	reg("internal/bytealg.IndexByteString", func(fr *frame, a []value) value {
		b := strBytes(a[0])
		for i, e := range b {
			if fr.i.px.BranchV(fr, equalsV(fr, types.Typ[types.Uint8], e, a[1])) {
				return i
			}
		}
		return -1
	})
	reg("internal/bytealg.CountString", func(fr *frame, a []value) value {
		s := mustGoString(fr, a[0], "CountString")
		return strings.Count(s, string([]byte{a[1].(byte)}))
	})
	reg("internal/bytealg.IndexString", func(fr *frame, a []value) value {
		return strings.Index(mustGoString(fr, a[0], "IndexString"), mustGoString(fr, a[1], "IndexString"))
	})
	reg("internal/bytealg.MakeNoZero", func(fr *frame, a []value) value {
		n := asInt64(a[0])
		s := make([]value, n)
		for i := range s {
			s[i] = uint8(0)
		}
		return s
	})
	reg("internal/stringslite.Index", func(fr *frame, a []value) value {
		return strings.Index(mustGoString(fr, a[0], "Index"), mustGoString(fr, a[1], "Index"))
	})

	// ---------------- strings / strconv / path ----------------
	reg("strings.Join", func(fr *frame, a []value) value {
		return strings.Join(strSlice(fr, a[0], "strings.Join"), mustGoString(fr, a[1], "strings.Join"))
	})
	reg("strings.Split", func(fr *frame, a []value) value {
		return fromStrSlice(strings.Split(mustGoString(fr, a[0], "Split"), mustGoString(fr, a[1], "Split")))
	})
	s2b := func(f func(string, string) bool) externalFn {
		return func(fr *frame, a []value) value {
			return f(mustGoString(fr, a[0], "strings"), mustGoString(fr, a[1], "strings"))
		}
	}
	reg("strings.HasPrefix", s2b(strings.HasPrefix))
	reg("strings.HasSuffix", s2b(strings.HasSuffix))
	reg("strings.Contains", s2b(strings.Contains))
	s2s := func(f func(string, string) string) externalFn {
		return func(fr *frame, a []value) value {
			return f(mustGoString(fr, a[0], "strings"), mustGoString(fr, a[1], "strings"))
		}
	}
	reg("strings.TrimPrefix", s2s(strings.TrimPrefix))
	reg("strings.TrimSuffix", s2s(strings.TrimSuffix))
	reg("strings.Index", func(fr *frame, a []value) value {
		return strings.Index(mustGoString(fr, a[0], "Index"), mustGoString(fr, a[1], "Index"))
	})
	reg("strings.LastIndex", func(fr *frame, a []value) value {
		return strings.LastIndex(mustGoString(fr, a[0], "Index"), mustGoString(fr, a[1], "Index"))
	})
	reg("strings.Compare", func(fr *frame, a []value) value {
		return bytesCmpTerm(fr, strBytes(a[0]), strBytes(a[1]))
	})
	reg("strconv.Itoa", func(fr *frame, a []value) value { return strconv.Itoa(int(asInt64(a[0]))) })
	reg("strconv.FormatUint", func(fr *frame, a []value) value {
		return strconv.FormatUint(uint64(asInt64(a[0])), int(asInt64(a[1])))
	})
	reg("strconv.FormatInt", func(fr *frame, a []value) value {
		return strconv.FormatInt(asInt64(a[0]), int(asInt64(a[1])))
	})
	errOf := func(err error) value {
		if err == nil {
			return iface{}
		}
		return newNativeErr(err.Error(), nil)
	}
	reg("strconv.Atoi", func(fr *frame, a []value) value {
		n, err := strconv.Atoi(mustGoString(fr, a[0], "Atoi"))
		return tuple{n, errOf(err)}
	})
	reg("strconv.ParseUint", func(fr *frame, a []value) value {
		n, err := strconv.ParseUint(mustGoString(fr, a[0], "ParseUint"), int(asInt64(a[1])), int(asInt64(a[2])))
		return tuple{n, errOf(err)}
	})
	reg("strconv.ParseInt", func(fr *frame, a []value) value {
		n, err := strconv.ParseInt(mustGoString(fr, a[0], "ParseInt"), int(asInt64(a[1])), int(asInt64(a[2])))
		return tuple{n, errOf(err)}
	})
	reg("path/filepath.Join", func(fr *frame, a []value) value { return filepath.Join(strSlice(fr, a[0], "Join")...) })
	reg("path.Join", func(fr *frame, a []value) value { return path.Join(strSlice(fr, a[0], "Join")...) })
	reg("path/filepath.Base", func(fr *frame, a []value) value { return filepath.Base(mustGoString(fr, a[0], "Base")) })
	reg("path/filepath.Dir", func(fr *frame, a []value) value { return filepath.Dir(mustGoString(fr, a[0], "Dir")) })
	reg("path.Base", func(fr *frame, a []value) value { return path.Base(mustGoString(fr, a[0], "Base")) })
	reg("path.Dir", func(fr *frame, a []value) value { return path.Dir(mustGoString(fr, a[0], "Dir")) })
	reg("sort.Strings", func(fr *frame, a []value) value {
		xs := a[0].([]value)
		ss := strSlice(fr, a[0], "sort.Strings")
		sort.Strings(ss)
		for i, s := range ss {
			xs[i] = s
		}
		return nil
	})
	reg("sort.Slice", func(fr *frame, a []value) value {
		xs := a[0].(iface).v.([]value)
		less := a[1]
		// insertion sort driven by the interpreted less(i, j)
		for i := 1; i < len(xs); i++ {
			for j := i; j > 0; j-- {
				if !fr.i.px.BranchV(fr, call(fr.i, fr, 0, less, []value{j, j - 1})) {
					break
				}
				xs[j], xs[j-1] = xs[j-1], xs[j]
			}
		}
		return nil
	})

	// ---------------- checksums ----------------
	reg("hash/crc32.MakeTable", func(fr *frame, a []value) value {
		p := uint32(asInt64(a[0]))
		t := tab32Cache[p]
		if t == nil {
			t = crc32.MakeTable(p)
			tab32Cache[p] = t
		}
		v := value(tableHandle{t32: t})
		return &v
	})
	reg("hash/crc64.MakeTable", func(fr *frame, a []value) value {
		p := uint64(asInt64(a[0]))
		t := tab64Cache[p]
		if t == nil {
			t = crc64.MakeTable(p)
			tab64Cache[p] = t
		}
		v := value(tableHandle{t64: t})
		return &v
	})
	tabOf := func(v value) tableHandle {
		p := v.(*value)
		if p == nil {
			panic(engineError{"nil crc table"})
		}
		th, ok := (*p).(tableHandle)
		if !ok {
			panic(pathEnd{kind: "inconclusive", msg: "crc table that was not made by MakeTable (library global)"})
		}
		return th
	}
	reg("hash/crc32.New", func(fr *frame, a []value) value {
		return iface{t: digestType, v: &digest{alg: "crc32", tab32: tabOf(a[0]).t32}}
	})
	reg("hash/crc32.NewIEEE", func(fr *frame, a []value) value {
		return iface{t: digestType, v: &digest{alg: "crc32", tab32: tab32Cache[crc32.IEEE]}}
	})
	reg("hash/crc64.New", func(fr *frame, a []value) value {
		return iface{t: digestType, v: &digest{alg: "crc64", tab64: tabOf(a[0]).t64}}
	})
	reg("hash/crc32.Checksum", func(fr *frame, a []value) value {
		d := &digest{alg: "crc32", tab32: tabOf(a[1]).t32, data: a[0].([]value)}
		return d.sum(fr)
	})
	reg("hash/crc32.ChecksumIEEE", func(fr *frame, a []value) value {
		d := &digest{alg: "crc32", tab32: tab32Cache[crc32.IEEE], data: a[0].([]value)}
		return d.sum(fr)
	})
	reg("hash/crc64.Checksum", func(fr *frame, a []value) value {
		d := &digest{alg: "crc64", tab64: tabOf(a[1]).t64, data: a[0].([]value)}
		return d.sum(fr)
	})
	for _, alg := range []string{"fnv64", "fnv64a", "fnv32", "fnv32a"} {
		alg := alg
		name := "hash/fnv.New" + strings.TrimPrefix(alg, "fnv")
		reg(name, func(fr *frame, a []value) value { return iface{t: digestType, v: &digest{alg: alg}} })
	}

	// ---------------- direct I/O blocks (ncw/directio): alignment of addresses has no meaning in the model ----------------
	reg("github.com/ncw/directio.AlignedBlock", func(fr *frame, a []value) value {
		n := asIndex(fr, a[0])
		if n < 0 {
			rtPanic(fr, "makeslice: len out of range")
		}
		if n >= 1<<20 {
			fr.i.px.note("io-buffer-of-1MiB-or-more-scaled-to-4KiB")
			n = 4096
		}
		s := make([]value, n)
		for i := range s {
			s[i] = uint8(0)
		}
		return s
	})

	// ---------------- buffer pool (capnp) ----------------
	const bp = "capnproto.org/go/capnp/v3/exp/bufferpool."
	reg(bp+"NewPool", func(fr *frame, a []value) value {
		v := value(structure{})
		return &v
	})
	reg("(*"+bp+"Pool).Get", func(fr *frame, a []value) value {
		n := asIndex(fr, a[1])
		if n < 0 {
			rtPanic(fr, "makeslice: len out of range")
		}
		if n > 1<<22 {
			// every model file is far smaller than 64 KiB, so the exact-length read
			// that follows an allocation fails the same way with a clamped buffer
			fr.i.px.note("huge-allocation-clamped-to-64KiB")
			n = 1 << 16
		}
		s := make([]value, n)
		for i := range s {
			s[i] = uint8(0)
		}
		return s
	})
	// Put clears the buffer, as the real pool does (a slice still used after it went back to the pool reads as
	// zeros); buffers are not handed out again, so reuse after Put shows as zeros rather than as foreign data
	reg("(*"+bp+"Pool).Put", func(fr *frame, a []value) value {
		if buf, ok := a[1].([]value); ok {
			for i := range buf {
				buf[i] = uint8(0)
			}
			fr.i.px.onBulkStore(fr, buf)
		}
		return nil
	})

	// ---------------- randomness / time ----------------
	reg("math/rand.Int", func(fr *frame, a []value) value {
		// Only use in the repository: skiplist.randomHeight, rand.Int()%4 == 0
		// means "one level higher". Modelled as a forked coin with a bound on
		// consecutive promotions (default 2 ⇒ tower heights 1..3).
		px := fr.i.px
		budget := 2
		if b, ok := px.userData["randbudget"]; ok {
			budget = int(asInt64(b))
		}
		if px.randRun >= budget {
			px.randRun = 0
			px.note("rand-promotion-budget-hit")
			return int(1)
		}
		px.randN++
		rk := fmt.Sprintf("rand.%d", px.randN)
		rc := px.Choose(rk, 2)
		px.vector[rk] = uint64(rc)
		if rc == 1 {
			px.randRun++
			return int(0)
		}
		px.randRun = 0
		return int(1)
	})
	reg(vrtPkg+"RandPromoteBudget", func(fr *frame, a []value) value {
		fr.i.px.setUser("randbudget", a[0])
		return nil
	})
	reg(vrtPkg+"Thorough", func(fr *frame, a []value) value { return os.Getenv("VERIF_TIER") == "thorough" })
	reg("time.Now", func(fr *frame, a []value) value {
		return zero(fr.fn.Signature.Results().At(0).Type())
	})
	reg("time.Since", func(fr *frame, a []value) value { return int64(0) })
	reg("(time.Time).Sub", func(fr *frame, a []value) value { return int64(0) })
	reg("(time.Duration).String", func(fr *frame, a []value) value { return "0s" })
	reg("(time.Duration).Seconds", func(fr *frame, a []value) value { return float64(0) })
	reg("time.NewTicker", func(fr *frame, a []value) value {
		// struct{C <-chan Time; ...}: allocate the zero struct and a channel
		t := deref(fr.fn.Signature.Results().At(0).Type())
		s := zero(t).(structure)
		s[0] = &vchan{cap: 1}
		v := value(s)
		return &v
	})
	reg("(*time.Ticker).Stop", noop)
	reg("(*time.Ticker).Reset", noop)
	// timers never fire under the engine (no wall clock): the channel stays empty
	reg("time.NewTimer", func(fr *frame, a []value) value {
		t := deref(fr.fn.Signature.Results().At(0).Type())
		s := zero(t).(structure)
		s[0] = &vchan{cap: 1}
		v := value(s)
		return &v
	})
	reg("(*time.Timer).Stop", func(fr *frame, a []value) value { return true })
	reg("(*time.Timer).Reset", func(fr *frame, a []value) value { return true })
	reg("time.After", func(fr *frame, a []value) value { return &vchan{cap: 1} })
	reg("time.Sleep", noop)
	// sync.Pool without pooling: Get is New() (or nil), Put drops the object
	reg("(*sync.Pool).Get", func(fr *frame, a []value) value {
		st := (*(a[0].(*value))).(structure)
		newFn := st[len(st)-1]
		if newFn == nil {
			return iface{}
		}
		if f, ok := newFn.(*ssa.Function); ok && f == nil {
			return iface{}
		}
		return call(fr.i, fr, 0, newFn, nil)
	})
	reg("(*sync.Pool).Put", noop)

	// ---------------- sync ----------------
	lk := func(op string) externalFn {
		return func(fr *frame, a []value) value {
			fr.i.px.lockOp(fr, a[0].(*value), op)
			return nil
		}
	}
	reg("(*sync.Mutex).Lock", lk("Lock"))
	reg("(*sync.Mutex).Unlock", lk("Unlock"))
	reg("(*sync.RWMutex).Lock", lk("Lock"))
	reg("(*sync.RWMutex).Unlock", lk("Unlock"))
	reg("(*sync.RWMutex).RLock", lk("RLock"))
	reg("(*sync.RWMutex).RUnlock", lk("RUnlock"))
	reg("(*sync.Once).Do", func(fr *frame, a []value) value {
		p := a[0].(*value)
		l := fr.i.px.lockOf(p)
		if l.name != "done" {
			l.name = "done"
			call(fr.i, fr, 0, a[1], nil)
		}
		return nil
	})
	// sync/atomic on plain integers: the engine is single threaded, the operations are ordinary
	atomicAdd := func(fr *frame, a []value) value {
		p := a[0].(*value)
		if p == nil {
			rtPanic(fr, "invalid memory address or nil pointer dereference")
		}
		*p = binop(fr, token.ADD, nil, *p, a[1])
		return *p
	}
	atomicLoad := func(fr *frame, a []value) value { return *(a[0].(*value)) }
	atomicStore := func(fr *frame, a []value) value { *(a[0].(*value)) = a[1]; return nil }
	atomicCAS := func(fr *frame, a []value) value {
		p := a[0].(*value)
		if fr.i.px.BranchV(fr, equalsV(fr, nil, *p, a[1])) {
			*p = a[2]
			return true
		}
		return false
	}
	for _, ty := range []string{"Int32", "Int64", "Uint32", "Uint64", "Uintptr"} {
		reg("sync/atomic.Add"+ty, atomicAdd)
		reg("sync/atomic.Load"+ty, atomicLoad)
		reg("sync/atomic.Store"+ty, atomicStore)
		reg("sync/atomic.CompareAndSwap"+ty, atomicCAS)
	}
	// atomic.Value / atomic.Pointer-free code: the real implementation works on unsafe pointers; the engine keeps
	// the stored value in a side table keyed by the Value's address
	atomicValOf := func(fr *frame, p value) *value {
		px := fr.i.px
		if px.atomicVals == nil {
			px.atomicVals = map[value]*value{}
		}
		c := px.atomicVals[p]
		if c == nil {
			var z value = iface{}
			c = &z
			px.atomicVals[p] = c
		}
		return c
	}
	reg("(*sync/atomic.Value).Store", func(fr *frame, a []value) value {
		if v, ok := a[1].(iface); ok && v.t == nil {
			rtPanic(fr, "sync/atomic: store of nil value into Value")
		}
		*atomicValOf(fr, a[0]) = a[1]
		return nil
	})
	reg("(*sync/atomic.Value).Load", func(fr *frame, a []value) value { return *atomicValOf(fr, a[0]) })
	reg("(*sync/atomic.Value).Swap", func(fr *frame, a []value) value {
		c := atomicValOf(fr, a[0])
		old := *c
		*c = a[1]
		return old
	})
	// sync.Map: the real one is built on atomic pointers and unsafe; the engine keeps an association list per Map
	syncMapOf := func(fr *frame, p value) *[]*amapEnt {
		px := fr.i.px
		if px.syncMaps == nil {
			px.syncMaps = map[value]*[]*amapEnt{}
		}
		m := px.syncMaps[p]
		if m == nil {
			m = &[]*amapEnt{}
			px.syncMaps[p] = m
		}
		return m
	}
	syncMapFind := func(fr *frame, m *[]*amapEnt, k value) *amapEnt {
		for _, e := range *m {
			if !e.deleted && fr.i.px.BranchV(fr, equalsV(fr, nil, e.k, k)) {
				return e
			}
		}
		return nil
	}
	reg("(*sync.Map).Load", func(fr *frame, a []value) value {
		if e := syncMapFind(fr, syncMapOf(fr, a[0]), a[1]); e != nil {
			return tuple{e.v, true}
		}
		return tuple{iface{}, false}
	})
	reg("(*sync.Map).Store", func(fr *frame, a []value) value {
		m := syncMapOf(fr, a[0])
		if e := syncMapFind(fr, m, a[1]); e != nil {
			e.v = a[2]
		} else {
			*m = append(*m, &amapEnt{k: a[1], v: a[2]})
		}
		return nil
	})
	reg("(*sync.Map).LoadOrStore", func(fr *frame, a []value) value {
		m := syncMapOf(fr, a[0])
		if e := syncMapFind(fr, m, a[1]); e != nil {
			return tuple{e.v, true}
		}
		*m = append(*m, &amapEnt{k: a[1], v: a[2]})
		return tuple{a[2], false}
	})
	reg("(*sync.Map).LoadAndDelete", func(fr *frame, a []value) value {
		if e := syncMapFind(fr, syncMapOf(fr, a[0]), a[1]); e != nil {
			e.deleted = true
			return tuple{e.v, true}
		}
		return tuple{iface{}, false}
	})
	reg("(*sync.Map).Delete", func(fr *frame, a []value) value {
		if e := syncMapFind(fr, syncMapOf(fr, a[0]), a[1]); e != nil {
			e.deleted = true
		}
		return nil
	})
	reg("(*sync.Map).Swap", func(fr *frame, a []value) value {
		m := syncMapOf(fr, a[0])
		if e := syncMapFind(fr, m, a[1]); e != nil {
			old := e.v
			e.v = a[2]
			return tuple{old, true}
		}
		*m = append(*m, &amapEnt{k: a[1], v: a[2]})
		return tuple{iface{}, false}
	})
	reg("(*sync.Map).Range", func(fr *frame, a []value) value {
		for _, e := range append([]*amapEnt{}, *syncMapOf(fr, a[0])...) {
			if e.deleted {
				continue
			}
			if ok, _ := call(fr.i, fr, 0, a[1], []value{e.k, e.v}).(bool); !ok {
				break
			}
		}
		return nil
	})
	reg("(*sync.Map).Clear", func(fr *frame, a []value) value {
		*syncMapOf(fr, a[0]) = nil
		return nil
	})
	// escape-analysis helper: pointer -> uintptr -> pointer round trip
	reg("internal/abi.NoEscape", func(fr *frame, a []value) value { return a[0] })
	reg("(*strings.Builder).copyCheck", noop)
	reg("(*strings.Builder).String", func(fr *frame, a []value) value {
		st := (*(a[0].(*value))).(structure)
		buf, _ := st[1].([]value)
		return mkStr(buf)
	})
	reg("(*sync.WaitGroup).Add", noop)
	reg("(*sync.WaitGroup).Done", noop)
	reg("(*sync.WaitGroup).Wait", noop)
}

func (px *PathCtx) setUser(k string, v value) {
	if px.userData == nil {
		px.userData = map[string]value{}
	}
	px.userData[k] = v
}

// callHandleMethod dispatches a method of a handled library type to the
// method of the same name of the harness object behind the handle.
func callHandleMethod(fr *frame, h handle, name string, args []value) value {
	tgt := h.target.(iface)
	m := findMethod(fr, tgt, name)
	if m == nil {
		panic(pathEnd{kind: "inconclusive", msg: fmt.Sprintf("handle target %v has no method %s (called from %s)", tgt.t, name, fr.caller.where())})
	}
	fr.i.stubsSeen["handle:"+name]++
	return call(fr.i, fr.caller, 0, m, append([]value{tgt.v}, args...))
}

// freeze marks every cell reachable from the roots as shared.
func (px *PathCtx) freeze(roots []value) {
	st := &sharedTracker{objs: map[*value]string{}, maps: map[*amap]bool{}, natives: map[nativeObj]bool{}, frozen: true}
	seenS := map[*value]bool{}
	var walk func(v value, depth int)
	walkCells := func(cells []value, depth int) {
		for i := range cells {
			p := &cells[i]
			if seenS[p] {
				continue
			}
			seenS[p] = true
			st.objs[p] = ""
			walk(cells[i], depth+1)
		}
	}
	walk = func(v value, depth int) {
		if depth > 64 {
			return
		}
		switch x := v.(type) {
		case *value:
			if x == nil || seenS[x] {
				return
			}
			seenS[x] = true
			st.objs[x] = ""
			walk(*x, depth+1)
		case structure:
			walkCells(x, depth)
		case array:
			walkCells(x, depth)
		case []value:
			walkCells(x[:cap(x)], depth)
		case iface:
			if no, ok := x.v.(nativeObj); ok {
				st.natives[no] = true
				return
			}
			walk(x.v, depth+1)
		case *amap:
			if x != nil && !st.maps[x] {
				st.maps[x] = true
				for _, e := range x.ents {
					walk(e.k, depth+1)
					walk(e.v, depth+1)
				}
			}
		case *closure:
			if x != nil {
				for _, e := range x.Env {
					walk(e, depth+1)
				}
			}
		case handle:
			walk(x.target, depth+1)
		}
	}
	for _, r := range roots {
		walk(r, 0)
	}
	px.shared = st
}
