// Derived from golang.org/x/tools/go/ssa/interp (Copyright 2013 The Go
// Authors, BSD-style licence). Modified: symbolic scalars, explicit run-time
// checks decided by the solver, forking at symbolic branches, no goroutines,
// redirect/handle/native-object dispatch.

package main

import (
	"fmt"
	"go/token"
	"go/types"
	"slices"
	"strings"

	"golang.org/x/tools/go/ssa"
)

type continuation int

const (
	kNext continuation = iota
	kReturn
	kJump
)

type interpreter struct {
	prog               *ssa.Program
	globals            map[*ssa.Global]*value
	runtimeErrorString types.Type
	sizes              types.Sizes
	px                 *PathCtx
	ts                 *TermStore
	extCache           map[*ssa.Function]externalFn
	noExt              map[*ssa.Function]bool
	fnNames            map[*ssa.Function]string
	redirects          map[string]value
	repoInits          []*ssa.Function
	stdInits           []*ssa.Function         // initialisers of the pure standard packages in stdInitPkgs
	stdCells           map[*ssa.Global]*value // their globals after initialisation: computed once, shared by all paths (never written afterwards)
	stdInitFailed      map[string]string
	modPrefix          string
	funcsSeen          map[*ssa.Function]bool
	stubsSeen          map[string]int
	trace              bool
}

type deferred struct {
	fn    value
	args  []value
	instr *ssa.Defer
	tail  *deferred
}

type frame struct {
	i                *interpreter
	caller           *frame
	fn               *ssa.Function
	block, prevBlock *ssa.BasicBlock
	env              map[ssa.Value]value
	locals           []value
	defers           *deferred
	result           value
	panicking        bool
	panic            any
	phitemps         []value
	pos              token.Pos
}

func deref(t types.Type) types.Type {
	if p, ok := t.Underlying().(*types.Pointer); ok {
		return p.Elem()
	}
	if p, ok := types.Unalias(t).(*types.Pointer); ok {
		return p.Elem()
	}
	panic(fmt.Sprintf("deref: not a pointer: %v", t))
}

func (fr *frame) get(key ssa.Value) value {
	switch key := key.(type) {
	case nil:
		return nil
	case *ssa.Function, *ssa.Builtin:
		return key
	case *ssa.Const:
		return constValue(key)
	case *ssa.Global:
		return fr.i.global(key)
	}
	if r, ok := fr.env[key]; ok {
		return r
	}
	panic(engineError{fmt.Sprintf("get: no value for %T: %v", key, key.Name())})
}

// global returns the cell of g, creating it lazily. An uninitialised library
// global of type error reads as a unique sentinel named after the global.
func (i *interpreter) global(g *ssa.Global) *value {
	if r, ok := i.globals[g]; ok {
		return r
	}
	t := deref(g.Type())
	cell := zero(t)
	if g.Pkg != nil && !i.isRepoPkg(g.Pkg) {
		if types.Identical(t, errorIfaceType) {
			cell = newNativeErr(g.Pkg.Pkg.Path()+"."+g.Name(), nil)
		}
	}
	p := new(value)
	*p = cell
	i.globals[g] = p
	return p
}

func (i *interpreter) isRepoPkg(p *ssa.Package) bool {
	return p != nil && p.Pkg != nil && strings.HasPrefix(p.Pkg.Path(), i.modPrefix)
}

func (fr *frame) runDefer(d *deferred) {
	var ok bool
	defer func() {
		if !ok {
			r := recover()
			if tp, isT := r.(targetPanic); isT {
				fr.panicking = true
				fr.panic = tp
			} else {
				panic(r)
			}
		}
	}()
	call(fr.i, fr, d.instr.Pos(), d.fn, d.args)
	ok = true
}

func (fr *frame) runDefers() {
	for d := fr.defers; d != nil; d = d.tail {
		fr.runDefer(d)
	}
	fr.defers = nil
	if fr.panicking {
		panic(fr.panic)
	}
}

func lookupMethod(i *interpreter, typ types.Type, meth *types.Func) *ssa.Function {
	return i.prog.LookupMethod(typ, meth.Pkg(), meth.Name())
}

func rtPanic(fr *frame, msg string) {
	panic(targetPanic{v: iface{t: fr.i.runtimeErrorString, v: "runtime error: " + msg}, where: fr.where()})
}

func (fr *frame) where() string {
	if fr == nil || fr.fn == nil {
		return ""
	}
	p := fr.i.prog.Fset.Position(fr.pos)
	return fmt.Sprintf("%s (%s:%d)", fr.fn.String(), shortFile(p.Filename), p.Line)
}

func shortFile(f string) string {
	if i := strings.LastIndex(f, "/"); i >= 0 {
		if j := strings.LastIndex(f[:i], "/"); j >= 0 {
			return f[j+1:]
		}
	}
	return f
}

// asIndex turns an index/length operand into a concrete int64, case-splitting
// a symbolic one over its feasible values.
func asIndex(fr *frame, v value) int64 {
	if s, ok := v.(sym); ok {
		return fr.i.px.Pick(fr.i.ts.toI64(s), "index@"+fr.where())
	}
	return asInt64(v)
}

func visitInstr(fr *frame, instr ssa.Instruction) continuation {
	if p := instr.Pos(); p != token.NoPos {
		fr.pos = p
	}
	switch instr := instr.(type) {
	case *ssa.DebugRef:
		// no-op

	case *ssa.UnOp:
		fr.env[instr] = unop(fr, instr, fr.get(instr.X))

	case *ssa.BinOp:
		fr.env[instr] = binop(fr, instr.Op, instr.X.Type(), fr.get(instr.X), fr.get(instr.Y))

	case *ssa.Call:
		fn, args := prepareCall(fr, &instr.Call)
		fr.env[instr] = call(fr.i, fr, instr.Pos(), fn, args)

	case *ssa.ChangeInterface:
		fr.env[instr] = fr.get(instr.X)

	case *ssa.ChangeType:
		fr.env[instr] = fr.get(instr.X)

	case *ssa.Convert:
		fr.env[instr] = conv(fr, instr.Type(), instr.X.Type(), fr.get(instr.X))

	case *ssa.SliceToArrayPointer:
		fr.env[instr] = sliceToArrayPointer(fr, instr.Type(), instr.X.Type(), fr.get(instr.X))

	case *ssa.MakeInterface:
		fr.env[instr] = iface{t: instr.X.Type(), v: fr.get(instr.X)}

	case *ssa.Extract:
		fr.env[instr] = fr.get(instr.Tuple).(tuple)[instr.Index]

	case *ssa.Slice:
		fr.env[instr] = sliceOp(fr, fr.get(instr.X), fr.get(instr.Low), fr.get(instr.High), fr.get(instr.Max))

	case *ssa.Return:
		switch len(instr.Results) {
		case 0:
		case 1:
			fr.result = fr.get(instr.Results[0])
		default:
			var res []value
			for _, r := range instr.Results {
				res = append(res, fr.get(r))
			}
			fr.result = tuple(res)
		}
		fr.block = nil
		return kReturn

	case *ssa.RunDefers:
		fr.runDefers()

	case *ssa.Panic:
		panic(targetPanic{v: fr.get(instr.X), where: fr.where()})

	case *ssa.Send:
		chanSend(fr, fr.get(instr.Chan), fr.get(instr.X))

	case *ssa.Store:
		p := fr.get(instr.Addr).(*value)
		if p == nil {
			rtPanic(fr, "invalid memory address or nil pointer dereference")
		}
		fr.i.px.onStore(fr, p)
		store(deref(instr.Addr.Type()), p, fr.get(instr.Val))

	case *ssa.If:
		succ := 1
		if fr.i.px.BranchV(fr, fr.get(instr.Cond)) {
			succ = 0
		}
		fr.prevBlock, fr.block = fr.block, fr.block.Succs[succ]
		return kJump

	case *ssa.Jump:
		fr.prevBlock, fr.block = fr.block, fr.block.Succs[0]
		return kJump

	case *ssa.Defer:
		fn, args := prepareCall(fr, &instr.Call)
		defers := &fr.defers
		if into := fr.get(instr.DeferStack); into != nil {
			defers = into.(**deferred)
		}
		*defers = &deferred{fn: fn, args: args, instr: instr, tail: *defers}

	case *ssa.Go:
		fn, args := prepareCall(fr, &instr.Call)
		fr.i.px.goStmts = append(fr.i.px.goStmts, goStmt{fn, args})

	case *ssa.MakeChan:
		fr.env[instr] = &vchan{cap: int(asIndex(fr, fr.get(instr.Size)))}

	case *ssa.Alloc:
		var addr *value
		if instr.Heap {
			addr = new(value)
			fr.env[instr] = addr
		} else {
			addr = fr.env[instr].(*value)
		}
		*addr = zero(deref(instr.Type()))

	case *ssa.MakeSlice:
		c := asIndex(fr, fr.get(instr.Cap))
		l := asIndex(fr, fr.get(instr.Len))
		if l < 0 || c < l {
			rtPanic(fr, "makeslice: len out of range")
		}
		if c >= 1<<20 && l == c && isByteSlice(instr.Type()) {
			// I/O buffers of a MiB and more (the 4 MiB defaults) are scaled to 4 KiB: every model file is far
			// smaller than that, so no such buffer ever fills and the code behaves the same
			fr.i.px.note("io-buffer-of-1MiB-or-more-scaled-to-4KiB")
			c, l = 4096, 4096
		}
		if c > 1<<22 {
			panic(pathEnd{kind: "inconclusive", msg: fmt.Sprintf("make([]T, %d) too large at %s", c, fr.where())})
		}
		sl := make([]value, c)
		tElt := instr.Type().Underlying().(*types.Slice).Elem()
		z := zero(tElt)
		if isScalar(z) {
			for i := range sl {
				sl[i] = z
			}
		} else {
			for i := range sl {
				sl[i] = zero(tElt)
			}
		}
		fr.env[instr] = sl[:l]

	case *ssa.MakeMap:
		fr.env[instr] = &amap{keyType: instr.Type().Underlying().(*types.Map).Key()}

	case *ssa.Range:
		fr.env[instr] = rangeIter(fr, fr.get(instr.X))

	case *ssa.Next:
		fr.env[instr] = fr.get(instr.Iter).(iter).next()

	case *ssa.FieldAddr:
		p := fr.get(instr.X).(*value)
		if p == nil {
			rtPanic(fr, "invalid memory address or nil pointer dereference")
		}
		fr.env[instr] = &(*p).(structure)[instr.Field]

	case *ssa.Field:
		fr.env[instr] = fr.get(instr.X).(structure)[instr.Field]

	case *ssa.IndexAddr:
		x := fr.get(instr.X)
		idxV := fr.get(instr.Index)
		switch x := x.(type) {
		case []value:
			idx := boundsIndex(fr, idxV, len(x))
			fr.env[instr] = &x[idx]
		case *value: // *array
			if x == nil {
				rtPanic(fr, "invalid memory address or nil pointer dereference")
			}
			a := (*x).(array)
			idx := boundsIndex(fr, idxV, len(a))
			fr.env[instr] = &a[idx]
		default:
			panic(engineError{fmt.Sprintf("unexpected x type in IndexAddr: %T", x)})
		}

	case *ssa.Index:
		x := fr.get(instr.X)
		idxV := fr.get(instr.Index)
		switch x := x.(type) {
		case array:
			fr.env[instr] = x[boundsIndex(fr, idxV, len(x))]
		case string:
			fr.env[instr] = x[boundsIndex(fr, idxV, len(x))]
		case sstr:
			fr.env[instr] = x.b[boundsIndex(fr, idxV, len(x.b))]
		default:
			panic(engineError{fmt.Sprintf("unexpected x type in Index: %T", x)})
		}

	case *ssa.Lookup:
		fr.env[instr] = lookup(fr, instr, fr.get(instr.X), fr.get(instr.Index))

	case *ssa.MapUpdate:
		m := fr.get(instr.Map).(*amap)
		if m == nil {
			rtPanic(fr, "assignment to entry in nil map")
		}
		fr.i.px.onMapWrite(fr, m)
		m.insert(fr, fr.get(instr.Key), fr.get(instr.Value))

	case *ssa.TypeAssert:
		fr.env[instr] = typeAssert(fr, instr, fr.get(instr.X).(iface))

	case *ssa.MakeClosure:
		var bindings []value
		for _, binding := range instr.Bindings {
			bindings = append(bindings, fr.get(binding))
		}
		fr.env[instr] = &closure{instr.Fn.(*ssa.Function), bindings}

	case *ssa.Phi:
		panic(engineError{"phi reached"})

	case *ssa.Select:
		fr.env[instr] = selectOp(fr, instr)

	default:
		panic(engineError{fmt.Sprintf("unexpected instruction: %T", instr)})
	}
	return kNext
}

func isScalar(v value) bool {
	switch v.(type) {
	case structure, array:
		return false
	}
	return true
}

// boundsIndex checks 0 <= idx < n (deciding it with the solver when idx is
// symbolic) and returns a concrete index.
func boundsIndex(fr *frame, idxV value, n int) int64 {
	if s, ok := idxV.(sym); ok {
		ts := fr.i.ts
		t := ts.toI64(s)
		inb := ts.And(ts.Cmp(opSle, ts.Const(64, 0), t), ts.Cmp(opSlt, t, ts.Const(64, uint64(n))))
		if !fr.i.px.Branch(fr, inb) {
			rtPanic(fr, fmt.Sprintf("index out of range [symbolic] with length %d", n))
		}
		return fr.i.px.Pick(t, "index@"+fr.where())
	}
	idx := asInt64(idxV)
	if idx < 0 || idx >= int64(n) {
		rtPanic(fr, fmt.Sprintf("index out of range [%d] with length %d", idx, n))
	}
	return idx
}

func prepareCall(fr *frame, call *ssa.CallCommon) (fn value, args []value) {
	v := fr.get(call.Value)
	if call.Method == nil {
		fn = v
	} else {
		recv := v.(iface)
		if recv.t == nil {
			rtPanic(fr, "invalid memory address or nil pointer dereference (method "+call.Method.Name()+" invoked on nil interface)")
		}
		if no, ok := recv.v.(nativeObj); ok {
			fn = nativeMethod{no, call.Method.Name()}
		} else if f := lookupMethod(fr.i, recv.t, call.Method); f == nil {
			panic(engineError{fmt.Sprintf("method set for dynamic type %v does not contain %s", recv.t, call.Method)})
		} else {
			fn = f
		}
		args = append(args, recv.v)
	}
	for _, arg := range call.Args {
		args = append(args, fr.get(arg))
	}
	return
}

func call(i *interpreter, caller *frame, callpos token.Pos, fn value, args []value) value {
	switch fn := fn.(type) {
	case *ssa.Function:
		if fn == nil {
			rtPanic(caller, "invalid memory address or nil pointer dereference (call of nil func)")
		}
		return callSSA(i, caller, callpos, fn, args, nil)
	case *closure:
		return callSSA(i, caller, callpos, fn.Fn, args, fn.Env)
	case *ssa.Builtin:
		return callBuiltin(caller, fn, args)
	case nativeMethod:
		return fn.obj.callMethod(caller, fn.name, args[1:])
	}
	panic(engineError{fmt.Sprintf("cannot call %T", fn)})
}

func (i *interpreter) fnName(fn *ssa.Function) string {
	if n, ok := i.fnNames[fn]; ok {
		return n
	}
	n := fn.String()
	i.fnNames[fn] = n
	return n
}

func callSSA(i *interpreter, caller *frame, callpos token.Pos, fn *ssa.Function, args []value, env []value) value {
	fr := &frame{i: i, caller: caller, fn: fn}
	if caller != nil {
		fr.pos = caller.pos
	}
	if fn.Synthetic == "package initializer" && fn.Pkg != nil && !i.isRepoPkg(fn.Pkg) && !stdInitPkgs[fn.Pkg.Pkg.Path()] {
		// initialisers of other packages are not executed (runtime, os, sync, reflect, ... need the real
		// runtime); their error variables are native (see global), other variables stay zero
		return nil
	}
	if fn.Parent() == nil && !i.noExt[fn] {
		ext, ok := i.extCache[fn]
		if !ok {
			name := i.fnName(fn)
			ext = externals[name]
			if ext == nil {
				if o := fn.Origin(); o != nil {
					ext = externals[o.String()]
				}
			}
			if ext == nil && len(i.redirects) == 0 && fn.Signature.Recv() == nil {
				// (redirects may be installed later by the harness; only
				// cache the negative answer for functions that can never be
				// redirected: none)
			}
			if ext != nil {
				i.extCache[fn] = ext
			}
		}
		if ext != nil {
			i.stubsSeen[i.fnName(fn)]++
			return ext(fr, args)
		}
		// handle dispatch: method called on a handle receiver
		if fn.Signature.Recv() != nil && len(args) > 0 {
			if p, ok := args[0].(*value); ok && p != nil {
				if h, ok := (*p).(handle); ok {
					return callHandleMethod(fr, h, fn.Name(), args[1:])
				}
			}
		}
		if len(i.redirects) > 0 {
			if r, ok := i.redirects[i.fnName(fn)]; ok {
				i.stubsSeen["redirect:"+i.fnName(fn)]++
				return call(i, caller, callpos, r, args)
			}
		}
		if fn.Blocks == nil {
			panic(pathEnd{kind: "inconclusive", msg: "no code for function: " + i.fnName(fn) + " called from " + caller.where()})
		}
	}
	if fn.Blocks == nil {
		panic(pathEnd{kind: "inconclusive", msg: "no code for function: " + i.fnName(fn)})
	}
	if fn.TypeParams().Len() > 0 && len(fn.TypeArgs()) == 0 {
		panic(engineError{"generic function body reached: " + fn.String()})
	}
	if !i.funcsSeen[fn] {
		i.funcsSeen[fn] = true
	}
	px := i.px
	px.depth++
	if px.depth > 400 {
		panic(pathEnd{kind: "inconclusive", msg: "call depth > 400 at " + fn.String()})
	}
	defer func() { px.depth-- }()

	fr.env = make(map[ssa.Value]value, 16)
	fr.block = fn.Blocks[0]
	fr.locals = make([]value, len(fn.Locals))
	for i, l := range fn.Locals {
		fr.locals[i] = zero(deref(l.Type()))
		fr.env[l] = &fr.locals[i]
	}
	for i, p := range fn.Params {
		fr.env[p] = args[i]
	}
	for i, fv := range fn.FreeVars {
		fr.env[fv] = env[i]
	}
	for fr.block != nil {
		runFrame(fr)
	}
	return fr.result
}

func runFrame(fr *frame) {
	defer func() {
		if fr.block == nil {
			return // normal return
		}
		r := recover()
		tp, ok := r.(targetPanic)
		if !ok {
			panic(r) // path end, engine error or host fault: not a Go-level panic of the target
		}
		fr.panicking = true
		fr.panic = tp
		fr.runDefers()
		fr.block = fr.fn.Recover
	}()

	px := fr.i.px
	for {
		nonPhis := executePhis(fr)
		for _, instr := range nonPhis {
			px.steps++
			if px.steps > px.maxSteps {
				panic(pathEnd{kind: "inconclusive", msg: "step limit"})
			}
			if fr.i.trace {
				if v, ok := instr.(ssa.Value); ok {
					fmt.Printf("\t%s: %s = %s\n", fr.fn.Name(), v.Name(), instr)
				} else {
					fmt.Printf("\t%s: %s\n", fr.fn.Name(), instr)
				}
			}
			if visitInstr(fr, instr) == kReturn {
				return
			}
		}
	}
}

func executePhis(fr *frame) []ssa.Instruction {
	firstNonPhi := -1
	for i, instr := range fr.block.Instrs {
		if _, ok := instr.(*ssa.Phi); !ok {
			firstNonPhi = i
			break
		}
	}
	nonPhis := fr.block.Instrs[firstNonPhi:]
	if firstNonPhi > 0 {
		phis := fr.block.Instrs[:firstNonPhi]
		predIndex := slices.Index(fr.block.Preds, fr.prevBlock)
		fr.phitemps = fr.phitemps[:0]
		for _, phi := range phis {
			phi := phi.(*ssa.Phi)
			fr.phitemps = append(fr.phitemps, fr.get(phi.Edges[predIndex]))
		}
		for i, phi := range phis {
			fr.env[phi.(*ssa.Phi)] = fr.phitemps[i]
		}
	}
	return nonPhis
}

func doRecover(caller *frame) value {
	if caller != nil && !caller.panicking &&
		caller.caller != nil && caller.caller.panicking {
		caller.caller.panicking = false
		p := caller.caller.panic
		caller.caller.panic = nil
		switch p := p.(type) {
		case targetPanic:
			return p.v
		default:
			panic(engineError{fmt.Sprintf("unexpected panic type %T in target call to recover()", p)})
		}
	}
	return iface{}
}

func isByteSlice(t types.Type) bool {
	sl, ok := t.Underlying().(*types.Slice)
	if !ok {
		return false
	}
	b, ok := sl.Elem().Underlying().(*types.Basic)
	return ok && b.Kind() == types.Uint8
}
