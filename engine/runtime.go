package main

import (
	"fmt"
	"go/types"
	"os"
	"runtime"
	"strings"

	"golang.org/x/tools/go/ssa"
)

type Config struct {
	Repo           string
	Module         string
	HarnessDir     string
	Pkg            string
	Func           string
	Workers        int
	MaxSteps       int64
	MaxPaths       int64
	MaxSeconds     int
	QueryTimeoutMs int
	Solver         string
	SolverLog      string
	Samples        int
	Validate       int
	Seed           int
	Trace          bool
	Out            string
}

func newInterpreter(prog *ssa.Program, ts *TermStore, cfg *Config) *interpreter {
	i := &interpreter{
		prog:      prog,
		ts:        ts,
		sizes:     types.SizesFor("gc", "amd64"),
		extCache:  map[*ssa.Function]externalFn{},
		noExt:     map[*ssa.Function]bool{},
		fnNames:   map[*ssa.Function]string{},
		funcsSeen: map[*ssa.Function]bool{},
		stubsSeen: map[string]int{},
		modPrefix: cfg.Module,
		trace:     cfg.Trace,
	}
	if rp := prog.ImportedPackage("runtime"); rp != nil {
		i.runtimeErrorString = rp.Type("errorString").Object().Type()
	} else {
		i.runtimeErrorString = types.Typ[types.String]
	}
	// initialisers of the repository's own (non-generated) packages, in
	// dependency order
	seen := map[*ssa.Package]bool{}
	var visit func(p *ssa.Package)
	visit = func(p *ssa.Package) {
		if seen[p] {
			return
		}
		seen[p] = true
		for _, imp := range p.Pkg.Imports() {
			if ip := prog.Package(imp); ip != nil {
				visit(ip)
			}
		}
		if i.isRepoPkg(p) && !isGeneratedPkg(p) {
			if f := p.Func("init"); f != nil {
				i.repoInits = append(i.repoInits, f)
			}
		} else if stdInitPkgs[p.Pkg.Path()] {
			if f := p.Func("init"); f != nil {
				i.stdInits = append(i.stdInits, f)
			}
		}
	}
	for _, p := range prog.AllPackages() {
		if i.isRepoPkg(p) {
			visit(p)
		}
	}
	return i
}

// isGeneratedPkg: packages that hold only protoc output (their initialisers build descriptors through reflection
// and unsafe and are not executed). recordio/proto and wal/proto are hand-written wrappers and are initialised.
func isGeneratedPkg(p *ssa.Package) bool {
	path := p.Pkg.Path()
	return strings.HasSuffix(path, "/sstables/proto") || strings.HasSuffix(path, "/simpledb/proto") || strings.HasSuffix(path, "/test_files")
}

// stdInitPkgs: standard packages whose package-level tables are needed by code executed from SSA and whose
// initialisers are plain data (no runtime, no system calls). Their initialisers run once per worker.
var stdInitPkgs = map[string]bool{
	"unicode/utf8": true, "unicode/utf16": true, "unicode": true, "strings": true, "bytes": true,
	"sort": true, "slices": true, "cmp": true, "math/bits": true, "container/heap": true,
	"encoding/binary": true, "encoding/hex": true, "path": true,
}

func (i *interpreter) resetPath() {
	i.globals = map[*ssa.Global]*value{}
	for g, c := range i.stdCells {
		i.globals[g] = c
	}
	i.redirects = map[string]value{}
}

// runStdInits executes the initialisers of stdInitPkgs once and keeps the resulting global cells.
func (i *interpreter) runStdInits() {
	if i.stdCells != nil {
		return
	}
	i.stdCells = map[*ssa.Global]*value{}
	i.stdInitFailed = map[string]string{}
	for _, f := range i.stdInits {
		func() {
			defer func() {
				if r := recover(); r != nil {
					i.stdInitFailed[f.Pkg.Pkg.Path()] = fmt.Sprint(r)
				}
			}()
			call(i, nil, 0, f, nil)
		}()
	}
	for g, c := range i.globals {
		if g.Pkg != nil && stdInitPkgs[g.Pkg.Pkg.Path()] {
			if _, failed := i.stdInitFailed[g.Pkg.Pkg.Path()]; !failed {
				i.stdCells[g] = c
			}
		}
	}
}

// runInits executes the package initialisers of the repository packages.
// Every other package's init$guard is pre-set so its init returns at once.
func (i *interpreter) runInits() {
	if i.stdCells == nil {
		i.runStdInits()
		i.resetPath()
	}
	for _, f := range i.repoInits {
		i.callInit(f)
	}
}

func (i *interpreter) callInit(f *ssa.Function) {
	// An init function begins with: if init$guard goto done; init$guard = true;
	// then calls the inits of imported packages. Pre-set the guard of every
	// package that must not be initialised.
	for _, imp := range f.Pkg.Pkg.Imports() {
		ip := i.prog.Package(imp)
		if ip == nil {
			continue
		}
		if !i.isRepoPkg(ip) || isGeneratedPkg(ip) {
			if g, ok := ip.Members["init$guard"].(*ssa.Global); ok {
				*i.global(g) = true
			}
		}
	}
	call(i, nil, 0, f, nil)
}

func stackSummary() string {
	buf := make([]byte, 1<<14)
	n := runtime.Stack(buf, false)
	lines := strings.Split(string(buf[:n]), "\n")
	var out []string
	for _, l := range lines {
		if strings.Contains(l, "/engine/") || strings.HasPrefix(l, "main.") {
			out = append(out, strings.TrimSpace(l))
		}
		if len(out) > 24 {
			break
		}
	}
	return strings.Join(out, "\n")
}

func openLog(path string) *os.File {
	f, err := os.Create(path)
	if err != nil {
		return nil
	}
	return f
}

// ---- channels (no goroutines: a blocking operation ends the path unless the
// harness scheduler callback makes progress) ----

type vchan struct {
	cap      int
	q        []value
	closed   bool
	recvWait int // receivers blocked in a receive (a send to them does not block)
}

func chanSend(fr *frame, c value, v value) {
	ch := c.(*vchan)
	if ch == nil {
		panic(pathEnd{kind: "stop", msg: "send on nil channel blocks forever at " + fr.where()})
	}
	if ch.closed {
		panic(targetPanic{v: iface{t: fr.i.runtimeErrorString, v: "send on closed channel"}, where: fr.where()})
	}
	ch.q = append(ch.q, v)
	fr.i.px.tryEffects++
	fr.i.px.onSync(fr, "send")
	// an unbuffered channel (or a full buffered one) needs a receiver: the
	// harness scheduler must have drained it in the callback
	if len(ch.q) > ch.cap+ch.recvWait {
		fr.i.px.blocked(fr, "chan send", func() bool { return len(ch.q) <= ch.cap+ch.recvWait })
	}
}

func chanRecv(fr *frame, instr *ssa.UnOp, c value) value {
	ch := c.(*vchan)
	if ch == nil {
		panic(pathEnd{kind: "stop", msg: "receive on nil channel blocks forever at " + fr.where()})
	}
	elemT := instr.X.Type().Underlying().(*types.Chan).Elem()
	if len(ch.q) == 0 && !ch.closed {
		ch.recvWait++
		func() {
			defer func() { ch.recvWait-- }()
			fr.i.px.blocked(fr, "chan recv", func() bool { return len(ch.q) > 0 || ch.closed })
		}()
	}
	var v value
	ok := false
	if len(ch.q) > 0 {
		v = ch.q[0]
		ch.q = ch.q[1:]
		ok = true
	} else {
		v = zero(elemT)
	}
	if instr.CommaOk {
		return tuple{v, ok}
	}
	return v
}

func chanClose(fr *frame, c value) {
	ch := c.(*vchan)
	if ch == nil || ch.closed {
		panic(targetPanic{v: iface{t: fr.i.runtimeErrorString, v: "close of nil or closed channel"}, where: fr.where()})
	}
	ch.closed = true
	fr.i.px.onSync(fr, "close")
}

// selectOp: cases are tried in order; the first ready one is taken (the
// harness decides readiness by what it put into the channels). Non-ready
// blocking select ends the path.
func selectOp(fr *frame, instr *ssa.Select) value {
	chosen := -1
	var recvV value
	recvOk := false
	ready := func() int {
		for i, st := range instr.States {
			ch := fr.get(st.Chan).(*vchan)
			if ch == nil {
				continue
			}
			if st.Dir == types.RecvOnly {
				if len(ch.q) > 0 || ch.closed {
					return i
				}
			} else if len(ch.q) < ch.cap {
				return i
			}
		}
		return -1
	}
	chosen = ready()
	if chosen < 0 && instr.Blocking {
		fr.i.px.blocked(fr, "select", func() bool { return ready() >= 0 })
		chosen = ready()
	}
	if chosen >= 0 {
		st := instr.States[chosen]
		ch := fr.get(st.Chan).(*vchan)
		if st.Dir == types.RecvOnly {
			if len(ch.q) > 0 {
				recvV = ch.q[0]
				ch.q = ch.q[1:]
				recvOk = true
			}
		} else {
			ch.q = append(ch.q, fr.get(st.Send))
		}
	}
	r := tuple{chosen, recvOk}
	for i, st := range instr.States {
		if st.Dir == types.RecvOnly {
			var v value
			if i == chosen && recvOk {
				v = recvV
			} else {
				v = zero(st.Chan.Type().Underlying().(*types.Chan).Elem())
			}
			r = append(r, v)
		}
	}
	return r
}

// ---- synchronisation callbacks ----

type lockState struct {
	writerBy  int         // thread holding it exclusively, -1 if none
	readersBy map[int]int // shared holds per thread
	name      string
	init      bool
}

func (l *lockState) ensure() {
	if !l.init {
		l.init = true
		l.writerBy = -1
		l.readersBy = map[int]int{}
	}
}

func (l *lockState) readers() int {
	n := 0
	for _, c := range l.readersBy {
		n += c
	}
	return n
}

// onSync calls the harness scheduler hook, if one was installed with
// vrt.OnSync(func(kind string)).
func (px *PathCtx) onSync(fr *frame, kind string) {
	if h, ok := px.userData["onsync"]; ok && !px.inSched {
		px.inSched = true
		call(fr.i, fr, 0, h, []value{kind})
		px.inSched = false
	}
}

// blocked: the current (only) thread cannot go on until cond holds; give the
// harness scheduler a chance, then end the path.
func (px *PathCtx) blocked(fr *frame, what string, cond func() bool) {
	if px.tryDepth > 0 && (what == "Lock" || what == "RLock") {
		// a call started with vrt.TryRunAs has to wait for a lock another model thread holds: in a real run it
		// would wait there until that thread is done. The attempt is given up (TryRunAs returns false) - which
		// is only sound if the call has not done anything yet.
		if px.tryEffects > 0 {
			panic(engineError{"TryRunAs: the injected call blocks on a lock after it already acquired locks or used channels"})
		}
		panic(tryAbort{})
	}
	if h, ok := px.userData["onblock"]; ok && !px.inBlock {
		// the block hook may also run inside a sync hook (a second client injected at a synchronisation point
		// of the first one can itself have to wait for the flusher)
		prev := px.inSched
		px.inBlock, px.inSched = true, true
		call(fr.i, fr, 0, h, []value{what})
		px.inBlock, px.inSched = false, prev
		if cond() {
			return
		}
	}
	panic(targetPanic{v: iface{t: fr.i.runtimeErrorString, v: "deadlock: " + what + " blocks forever"}, where: fr.where()})
}

// tryAbort unwinds an attempt started with vrt.TryRunAs (see blocked).
type tryAbort struct{}

func (px *PathCtx) lockOf(p *value) *lockState {
	if px.locks == nil {
		px.locks = map[*value]*lockState{}
	}
	l := px.locks[p]
	if l == nil {
		l = &lockState{}
		px.locks[p] = l
	}
	return l
}

func (px *PathCtx) lockOp(fr *frame, p *value, op string) {
	l := px.lockOf(p)
	l.ensure()
	me := px.curThread
	switch op {
	case "Lock":
		px.onSync(fr, "lock")
		if l.writerBy >= 0 || l.readers() > 0 {
			px.blocked(fr, "Lock", func() bool { return l.writerBy < 0 && l.readers() == 0 })
		}
		l.writerBy = me
		px.tryEffects++
	case "Unlock":
		if l.writerBy < 0 {
			panic(targetPanic{v: iface{t: fr.i.runtimeErrorString, v: "sync: unlock of unlocked mutex"}, where: fr.where()})
		}
		l.writerBy = -1
		px.onSync(fr, "unlock")
	case "RLock":
		px.onSync(fr, "rlock")
		if l.writerBy >= 0 {
			px.blocked(fr, "RLock", func() bool { return l.writerBy < 0 })
		}
		l.readersBy[me]++
		px.tryEffects++
	case "RUnlock":
		if l.readersBy[me] <= 0 {
			panic(targetPanic{v: iface{t: fr.i.runtimeErrorString, v: "sync: RUnlock of unlocked RWMutex"}, where: fr.where()})
		}
		l.readersBy[me]--
		px.onSync(fr, "runlock")
	}
}

// heldLocks returns the locks the current thread holds exclusively / shared.
func (px *PathCtx) heldLocks() (w []*value, r []*value) {
	for p, l := range px.locks {
		if !l.init {
			continue
		}
		if l.writerBy == px.curThread {
			w = append(w, p)
		}
		if l.readersBy[px.curThread] > 0 {
			r = append(r, p)
		}
	}
	return
}

// ---- shared-state tracking (C18) ----

type sharedTracker struct {
	frozen  bool
	objs    map[*value]string // cells allocated before Freeze, with a label
	maps    map[*amap]bool
	natives map[nativeObj]bool // engine-native objects (hash digests) reachable before Freeze
	writes  []string
	enabled bool
}

func (st *sharedTracker) lockEvent(p *value, op string) {}

type watchAccess struct {
	write bool
	held  map[*value]bool // locks that protect this access (write: held exclusively; read: held in any mode)
	where string
}

type watchState struct {
	names map[*value]string
	acc   map[string][]watchAccess
	order []string
	on    bool
}

func (px *PathCtx) watchAccess(fr *frame, p *value, write bool) {
	w := px.watch
	if w == nil || !w.on {
		return
	}
	name, ok := w.names[p]
	if !ok {
		return
	}
	held := map[*value]bool{}
	for lp, l := range px.locks {
		if !l.init {
			continue
		}
		if l.writerBy == px.curThread || (!write && l.readersBy[px.curThread] > 0) {
			held[lp] = true
		}
	}
	if _, seen := w.acc[name]; !seen {
		w.order = append(w.order, name)
	}
	w.acc[name] = append(w.acc[name], watchAccess{write: write, held: held, where: fr.where()})
}

func (px *PathCtx) onStore(fr *frame, p *value) {
	if px.shared != nil && px.shared.frozen {
		px.shared.store(px, fr, p)
	}
	if px.watch != nil {
		px.watchAccess(fr, p, true)
	}
}

func (px *PathCtx) onLoad(fr *frame, p *value) {
	if px.watch != nil {
		px.watchAccess(fr, p, false)
	}
}

func (px *PathCtx) onMapRead(fr *frame, m *amap) {}

func (px *PathCtx) onMapWrite(fr *frame, m *amap) {
	if px.shared != nil && px.shared.frozen && px.shared.maps[m] {
		w, _ := px.heldLocks()
		if len(w) == 0 {
			px.shared.writes = append(px.shared.writes, "map update at "+fr.where())
		}
	}
}

// onBulkStore: copy / append writing into cells of a slice.
func (px *PathCtx) onBulkStore(fr *frame, cells []value) {
	if px.shared != nil && px.shared.frozen {
		for i := range cells {
			px.shared.store(px, fr, &cells[i])
		}
	}
}

// watchReport applies the lock-set rule: a location that is written at least once after watching began must
// have a lock that is held at every access (exclusively at every write).
func (px *PathCtx) watchReport() []string {
	var out []string
	w := px.watch
	if w == nil {
		return nil
	}
	for _, name := range w.order {
		accs := w.acc[name]
		written := false
		for _, a := range accs {
			if a.write {
				written = true
			}
		}
		if !written {
			continue
		}
		common := map[*value]bool{}
		for lp := range accs[0].held {
			common[lp] = true
		}
		for _, a := range accs[1:] {
			for lp := range common {
				if !a.held[lp] {
					delete(common, lp)
				}
			}
		}
		if len(common) == 0 {
			// name the first unprotected or conflicting pair
			desc := name + ": no lock is held at every access:"
			n := 0
			for _, a := range accs {
				if len(a.held) == 0 || a.write {
					kind := "read"
					if a.write {
						kind = "write"
					}
					desc += fmt.Sprintf(" %s at %s holding %d lock(s);", kind, a.where, len(a.held))
					n++
					if n >= 3 {
						break
					}
				}
			}
			out = append(out, desc)
		}
	}
	return out
}

func (st *sharedTracker) store(px *PathCtx, fr *frame, p *value) {
	if _, ok := st.objs[p]; ok {
		w, _ := px.heldLocks()
		if len(w) == 0 {
			st.writes = append(st.writes, "store at "+fr.where())
		}
	}
}

var _ = fmt.Sprintf
