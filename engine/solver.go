package main

// One long-lived solver process per worker, SMT-LIB2 over a pipe.
// Scope discipline: level 1 = the current path (pushed at path start, popped
// at path end); queries push/pop one more level.

import (
	"bufio"
	"fmt"
	"io"
	"os/exec"
	"strconv"
	"strings"
	"time"
)

type Solver struct {
	name    string
	cmd     *exec.Cmd
	in      io.WriteCloser
	out     *bufio.Reader
	epoch   int32
	vars    []*Term // declared in the current path scope
	nSat    int
	nUnsat  int
	nUnk    int
	nErr    int
	seconds float64
	timeout int // ms per query
	log     io.Writer
}

func solverArgv(kind string, timeoutMs int) []string {
	switch kind {
	case "z3":
		return []string{"z3", "-in", fmt.Sprintf("-t:%d", timeoutMs)}
	case "z3-new":
		return []string{"z3-new", "-in", fmt.Sprintf("-t:%d", timeoutMs)}
	case "cvc5":
		return []string{"cvc5", "--incremental", "--lang=smt2", "--produce-models", fmt.Sprintf("--tlimit-per=%d", timeoutMs)}
	}
	panic("unknown solver " + kind)
}

func NewSolver(kind string, timeoutMs int) (*Solver, error) {
	argv := solverArgv(kind, timeoutMs)
	cmd := exec.Command(argv[0], argv[1:]...)
	in, err := cmd.StdinPipe()
	if err != nil {
		return nil, err
	}
	outp, err := cmd.StdoutPipe()
	if err != nil {
		return nil, err
	}
	cmd.Stderr = cmd.Stdout
	if err := cmd.Start(); err != nil {
		return nil, err
	}
	s := &Solver{name: kind, cmd: cmd, in: in, out: bufio.NewReaderSize(outp, 1<<16), epoch: 1, timeout: timeoutMs}
	if kind == "cvc5" {
		s.send("(set-logic QF_BV)\n")
	}
	s.send("(set-option :produce-models true)\n(push 1)\n")
	return s, nil
}

func (s *Solver) send(text string) {
	if s.log != nil {
		io.WriteString(s.log, text)
	}
	if _, err := io.WriteString(s.in, text); err != nil {
		panic(engineError{"solver pipe: " + err.Error()})
	}
}

func (s *Solver) Close() {
	s.in.Close()
	done := make(chan struct{})
	go func() { s.cmd.Wait(); close(done) }()
	select {
	case <-done:
	case <-time.After(2 * time.Second):
		s.cmd.Process.Kill()
	}
}

// NewPath drops everything asserted for the previous path.
func (s *Solver) NewPath() {
	s.send("(pop 1)\n(push 1)\n")
	s.epoch++
	s.vars = s.vars[:0]
}

// Assert adds t permanently to the current path scope.
func (s *Solver) Assert(t *Term) {
	var sb strings.Builder
	emit(&sb, t, s.epoch, &s.vars)
	fmt.Fprintf(&sb, "(assert %s)\n", ref(t))
	s.send(sb.String())
}

type satResult int

const (
	resSat satResult = iota
	resUnsat
	resUnknown
)

func (s *Solver) readLine() string {
	line, err := s.out.ReadString('\n')
	if err != nil {
		panic(engineError{"solver died: " + err.Error()})
	}
	return strings.TrimSpace(line)
}

// Check asks sat(path scope ∧ extra). With wantModel, the values of all
// declared variables are returned on sat.
func (s *Solver) Check(extra *Term, wantModel bool) (satResult, Model) {
	var sb strings.Builder
	sb.WriteString("(push 1)\n")
	// definitions made inside the push are popped with it, so emit into a
	// throw-away epoch: remember which terms were marked and unmark them.
	var marked []*Term
	if extra != nil {
		emitTracked(&sb, extra, s.epoch, &marked)
		fmt.Fprintf(&sb, "(assert %s)\n", ref(extra))
	}
	sb.WriteString("(check-sat)\n")
	t0 := time.Now()
	s.send(sb.String())
	var res satResult
	var line string
	for {
		line = s.readLine()
		if line == "" {
			continue
		}
		break
	}
	switch {
	case line == "sat":
		res = resSat
		s.nSat++
	case line == "unsat":
		res = resUnsat
		s.nUnsat++
	case line == "unknown" || strings.HasPrefix(line, "timeout"):
		res = resUnknown
		s.nUnk++
	default:
		// (error ...) or anything else: inconclusive
		s.nErr++
		res = resUnknown
		if s.log != nil {
			fmt.Fprintf(s.log, "; SOLVER SAID: %s\n", line)
		}
		lastSolverError = line
	}
	var m Model
	if res == resSat && wantModel {
		m = s.getModel(marked)
	}
	s.seconds += time.Since(t0).Seconds()
	s.send("(pop 1)\n")
	for _, t := range marked {
		t.epoch = 0
	}
	return res, m
}

var lastSolverError string

func emitTracked(sb *strings.Builder, t *Term, epoch int32, marked *[]*Term) {
	// emit but record every term newly marked so it can be unmarked after pop
	var vars []*Term
	before := sb.Len()
	_ = before
	collect(t, epoch, marked)
	for _, m := range *marked {
		m.epoch = 0
	}
	emit(sb, t, epoch, &vars)
}

func collect(t *Term, epoch int32, out *[]*Term) {
	seen := map[int32]bool{}
	var rec func(t *Term)
	rec = func(t *Term) {
		if t.op == opConst || t.epoch == epoch || seen[t.id] {
			return
		}
		seen[t.id] = true
		for _, c := range t.x {
			rec(c)
		}
		*out = append(*out, t)
	}
	rec(t)
}

func (s *Solver) getModel(extraTerms []*Term) Model {
	m := Model{}
	var names []*Term
	names = append(names, s.vars...)
	for _, t := range extraTerms {
		if t.op == opVar {
			names = append(names, t)
		}
	}
	if len(names) == 0 {
		return m
	}
	var sb strings.Builder
	sb.WriteString("(get-value (")
	for _, v := range names {
		sb.WriteString(smtName(v.name))
		sb.WriteString(" ")
	}
	sb.WriteString("))\n")
	s.send(sb.String())
	// read balanced s-expression
	var text strings.Builder
	depth := 0
	started := false
	inBar := false
	for !started || depth > 0 {
		line, err := s.out.ReadString('\n')
		if err != nil {
			panic(engineError{"solver died in get-value"})
		}
		for _, ch := range line {
			if ch == '|' {
				inBar = !inBar
			}
			if inBar {
				continue
			}
			if ch == '(' {
				depth++
				started = true
			} else if ch == ')' {
				depth--
			}
		}
		text.WriteString(line)
		if strings.HasPrefix(strings.TrimSpace(line), "(error") {
			s.nErr++
			lastSolverError = line
			return m
		}
	}
	parseModel(text.String(), m)
	return m
}

// parseModel parses ((|name| #x..) (|n2| true) ...)
func parseModel(s string, m Model) {
	i := 0
	n := len(s)
	for i < n {
		// find next '|'
		j := strings.IndexByte(s[i:], '|')
		if j < 0 {
			return
		}
		j += i
		k := strings.IndexByte(s[j+1:], '|')
		if k < 0 {
			return
		}
		k += j + 1
		name := s[j+1 : k]
		// value token
		p := k + 1
		for p < n && (s[p] == ' ' || s[p] == '\n') {
			p++
		}
		q := p
		if p < n && s[p] == '(' { // (_ bv5 8)
			q = strings.IndexByte(s[p:], ')') + p + 1
		} else {
			for q < n && s[q] != ')' && s[q] != ' ' && s[q] != '\n' {
				q++
			}
		}
		tok := s[p:q]
		var v uint64
		switch {
		case tok == "true":
			v = 1
		case tok == "false":
			v = 0
		case strings.HasPrefix(tok, "#x"):
			v, _ = strconv.ParseUint(tok[2:], 16, 64)
		case strings.HasPrefix(tok, "#b"):
			v, _ = strconv.ParseUint(tok[2:], 2, 64)
		case strings.HasPrefix(tok, "(_ bv"):
			f := strings.Fields(tok[5:])
			v, _ = strconv.ParseUint(f[0], 10, 64)
		}
		m[name] = v
		i = q
	}
}
