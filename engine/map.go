package main

// Association-list maps: insertion ordered, key equality decided through
// equalsV (forks on symbolic keys). Go's randomised iteration order is not
// modelled: iteration is in insertion order.

import "go/types"

type amapEnt struct {
	k, v    value
	deleted bool
}

type amap struct {
	keyType types.Type
	ents    []*amapEnt
	n       int
}

func (m *amap) find(fr *frame, k value) *amapEnt {
	if m == nil {
		return nil
	}
	for _, e := range m.ents {
		if e.deleted {
			continue
		}
		if fr.i.px.BranchV(fr, equalsV(fr, m.keyType, e.k, k)) {
			return e
		}
	}
	return nil
}

func (m *amap) insert(fr *frame, k, v value) {
	if e := m.find(fr, k); e != nil {
		e.v = v
		return
	}
	m.ents = append(m.ents, &amapEnt{k: k, v: v})
	m.n++
}

func (m *amap) delete(fr *frame, k value) {
	if e := m.find(fr, k); e != nil {
		e.deleted = true
		m.n--
	}
}

func (m *amap) len() int {
	if m == nil {
		return 0
	}
	return m.n
}
