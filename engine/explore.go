package main

// Path exploration: depth-first over decision sequences by re-execution.
// A work item is a decision prefix plus a model that satisfies the path
// condition of that prefix. While a prefix is replayed no solver call is
// made; at a new symbolic branch the side the model satisfies is known to be
// feasible and only the other side is asked of the solver.

import (
	"strconv"
	"fmt"
	"go/types"
	"sort"
	"strings"
	"sync"
	"time"

	"golang.org/x/tools/go/ssa"
)

type Decision struct {
	K byte  // 'b' branch, 'p' pick, 'c' choose
	V int64 // branch: 0/1; pick/choose: value
}

type WorkItem struct {
	Prefix []Decision
	Model  Model
}

type Violation struct {
	Harness  string            `json:"harness"`
	AssertID string            `json:"assert"`
	Kind     string            `json:"kind"` // assert | panic | stop
	Tags     []string          `json:"tags"`
	Msg      string            `json:"msg,omitempty"`
	Vector   map[string]uint64 `json:"vector"`
	Trace    []string          `json:"trace,omitempty"`
	// Alternates: further witnesses of the same signature, each contributing a choice value (a small input
	// value) no earlier witness had. The driver replays them when the first witness does not reproduce
	// natively (for example because it used a stand-in in a way the real component does not behave).
	Alternates []map[string]uint64 `json:"alternates,omitempty"`
	seenKV     map[string]bool
}

func (v *Violation) noteKV(vec map[string]uint64) (fresh bool) {
	if v.seenKV == nil {
		v.seenKV = map[string]bool{}
	}
	for k, x := range vec {
		if x < 16 {
			kv := k + "=" + strconv.FormatUint(x, 10)
			if !v.seenKV[kv] {
				v.seenKV[kv] = true
				fresh = true
			}
		}
	}
	return fresh
}

func (v *Violation) Signature() string {
	return v.Harness + "|" + v.AssertID + "|" + strings.Join(v.Tags, ",")
}

type goStmt struct {
	fn   value
	args []value
}

type PathCtx struct {
	w        *Worker
	prefix   []Decision
	pos      int
	decs     []Decision
	pc       []*Term
	asserted int
	model    Model
	ev       *evalCache
	steps    int64
	maxSteps int64
	depth    int
	fresh    int
	tags     []string
	reach    []string
	notes    map[string]int
	vector   map[string]uint64 // concrete choices (Range/Choose) by key
	symKeys  []symKey          // keyed symbolic inputs
	trace    []traceEnt
	goStmts  []goStmt
	crcApps  []*crcApp
	expectPanic string
	symAsserts  int // assertions with a symbolic operand reached on this path
	asserts     int
	locks       map[*value]*lockState
	lockOrder   []*value
	shared      *sharedTracker
	violations  []*Violation
	userData    map[string]value
	inSched     bool
	inBlock     bool
	tryDepth    int
	atomicVals  map[value]*value
	syncMaps    map[value]*[]*amapEnt
	tryEffects  int
	randN, randRun int
	pins        map[*Term]uint64
	noteTexts   []string
	watch       *watchState
	curThread   int
}

type symKey struct {
	key string
	t   *Term
}

type traceEnt struct {
	key string
	t   *Term // evaluated under the final model
	s   string
}

func (px *PathCtx) note(s string) {
	if px.notes == nil {
		px.notes = map[string]int{}
	}
	px.notes[s]++
}

func (px *PathCtx) inReplay() bool { return px.pos < len(px.prefix) }

func (px *PathCtx) evalBool(t *Term) bool {
	if px.ev == nil {
		px.ev = newEval(px.model)
	}
	return px.ev.Eval(t) != 0
}

func (px *PathCtx) eval(t *Term) uint64 {
	if px.ev == nil {
		px.ev = newEval(px.model)
	}
	return px.ev.Eval(t)
}

func (px *PathCtx) setModel(m Model) {
	px.model = m
	px.ev = nil
}

func (px *PathCtx) freshVar(w uint8, tag string) *Term {
	px.fresh++
	return px.w.ts.Var(w, fmt.Sprintf("%s#%d", tag, px.fresh))
}

func (px *PathCtx) freshBool(tag string) value {
	px.note("float-havoc")
	return sym{px.freshVar(0, tag), types.Bool}
}

// syncSolver sends the not-yet-asserted part of the path condition.
func (px *PathCtx) syncSolver() {
	s := px.w.solver
	for ; px.asserted < len(px.pc); px.asserted++ {
		s.Assert(px.pc[px.asserted])
	}
}

func (px *PathCtx) check(extra *Term, wantModel bool) (satResult, Model) {
	px.syncSolver()
	r, m := px.w.solver.Check(extra, wantModel)
	if r == resUnknown {
		px.w.ex.noteInconclusive("solver unknown: " + lastSolverError)
	}
	if r == resSat && wantModel {
		// keep engine-chosen values of variables the solver never saw
		for k, v := range px.model {
			if _, ok := m[k]; !ok {
				m[k] = v
			}
		}
	}
	return r, m
}

// BranchV decides a branch on a bool or symbolic bool value.
func (px *PathCtx) BranchV(fr *frame, c value) bool {
	switch c := c.(type) {
	case bool:
		return c
	case sym:
		return px.Branch(fr, c.t)
	}
	panic(engineError{fmt.Sprintf("branch on %T", c)})
}

func (px *PathCtx) Branch(fr *frame, c *Term) bool {
	ts := px.w.ts
	if c.op == opConst {
		return c.c != 0
	}
	if px.inReplay() {
		d := px.prefix[px.pos]
		if d.K != 'b' {
			panic(engineError{fmt.Sprintf("replay divergence: expected %c got branch at %s", d.K, fr.where())})
		}
		px.pos++
		px.decs = append(px.decs, d)
		if d.V != 0 {
			px.addConj(c)
			return true
		}
		px.addConj(ts.Not(c))
		return false
	}
	b := px.evalBool(c)
	other := c
	if b {
		other = ts.Not(c)
	}
	px.w.ex.branches.add(1)
	res, m := px.check(other, true)
	if res == resSat {
		alt := make([]Decision, len(px.decs)+1)
		copy(alt, px.decs)
		alt[len(px.decs)] = Decision{'b', b2i(!b)}
		px.w.ex.push(WorkItem{alt, m})
	}
	px.decs = append(px.decs, Decision{'b', b2i(b)})
	if b {
		px.addConj(c)
	} else {
		px.addConj(ts.Not(c))
	}
	return b
}

func b2i(b bool) int64 {
	if b {
		return 1
	}
	return 0
}

const maxPick = 260

// Pick concretises a 64-bit term: the path continues with one feasible value,
// every other feasible value becomes a sibling path.
func (px *PathCtx) Pick(t *Term, what string) int64 {
	ts := px.w.ts
	if t.op == opConst {
		return int64(t.c)
	}
	if px.inReplay() {
		d := px.prefix[px.pos]
		if d.K != 'p' {
			panic(engineError{fmt.Sprintf("replay divergence: expected %c got pick (%s)", d.K, what)})
		}
		px.pos++
		px.decs = append(px.decs, d)
		px.addConj(ts.Cmp(opEq, t, ts.Const(t.w, uint64(d.V))))
		return d.V
	}
	v0 := px.eval(t)
	seen := []uint64{v0}
	excl := ts.Not(ts.Cmp(opEq, t, ts.Const(t.w, v0)))
	for {
		res, m := px.check(excl, true)
		if res != resSat {
			break
		}
		v := newEval(m).Eval(t)
		seen = append(seen, v)
		alt := make([]Decision, len(px.decs)+1)
		copy(alt, px.decs)
		alt[len(px.decs)] = Decision{'p', int64(v)}
		px.w.ex.push(WorkItem{alt, m})
		excl = ts.And(excl, ts.Not(ts.Cmp(opEq, t, ts.Const(t.w, v))))
		if len(seen) > maxPick {
			px.w.ex.noteInconclusive(fmt.Sprintf("more than %d values at %s", maxPick, what))
			break
		}
	}
	px.decs = append(px.decs, Decision{'p', int64(v0)})
	px.addConj(ts.Cmp(opEq, t, ts.Const(t.w, v0)))
	return int64(v0)
}

// Choose forks n ways without involving the solver.
func (px *PathCtx) Choose(key string, n int) int {
	if n <= 0 {
		panic(pathEnd{kind: "infeasible", msg: "choose from empty set " + key})
	}
	var v int64
	if px.inReplay() {
		d := px.prefix[px.pos]
		if d.K != 'c' {
			panic(engineError{fmt.Sprintf("replay divergence: expected %c got choose (%s)", d.K, key)})
		}
		px.pos++
		px.decs = append(px.decs, d)
		v = d.V
	} else {
		for i := n - 1; i >= 1; i-- {
			alt := make([]Decision, len(px.decs)+1)
			copy(alt, px.decs)
			alt[len(px.decs)] = Decision{'c', int64(i)}
			px.w.ex.push(WorkItem{alt, copyModel(px.model)})
		}
		px.decs = append(px.decs, Decision{'c', 0})
		v = 0
	}
	return int(v)
}

func copyModel(m Model) Model {
	r := make(Model, len(m))
	for k, v := range m {
		r[k] = v
	}
	return r
}

// AddPC conjoins c to the path condition, keeping the model in step.
func (px *PathCtx) AddPC(c *Term, why string) {
	if c.op == opConst {
		if c.c == 0 {
			panic(pathEnd{kind: "infeasible", msg: why})
		}
		return
	}
	if px.inReplay() || px.evalBool(c) {
		px.addConj(c)
		return
	}
	res, m := px.check(c, true)
	switch res {
	case resSat:
		px.addConj(c)
		px.setModel(m)
	case resUnsat:
		panic(pathEnd{kind: "infeasible", msg: why})
	default:
		panic(pathEnd{kind: "inconclusive", msg: "solver unknown on assumption " + why})
	}
}

func (px *PathCtx) vectorNow(m Model) map[string]uint64 {
	out := map[string]uint64{}
	for k, v := range px.vector {
		out[k] = v
	}
	ev := newEval(m)
	for _, sk := range px.symKeys {
		out[sk.key] = ev.Eval(sk.t)
	}
	return out
}

func (px *PathCtx) traceNow(m Model) []string {
	ev := newEval(m)
	var out []string
	for _, e := range px.trace {
		if e.t != nil {
			out = append(out, fmt.Sprintf("%s=%d", e.key, ev.Eval(e.t)))
		} else {
			out = append(out, e.key+"="+e.s)
		}
	}
	return out
}

// Assert checks c on the current path; a counterexample is recorded and the
// path goes on under pc ∧ c.
func (px *PathCtx) Assert(fr *frame, cv value, id string) {
	px.asserts++
	var c *Term
	switch x := cv.(type) {
	case bool:
		c = px.w.ts.Bool(x)
	case sym:
		c = x.t
		px.symAsserts++
	}
	if c.op == opConst {
		if c.c == 0 {
			px.violation("assert", id, "", px.model)
			panic(pathEnd{kind: "stop", msg: "assertion " + id + " is false on this whole path"})
		}
		return
	}
	if !px.inReplay() {
		if !px.evalBool(c) {
			px.violation("assert", id, "", px.model)
		} else {
			px.w.ex.assertQueries.add(1)
			res, m := px.check(px.w.ts.Not(c), true)
			if res == resSat {
				px.violation("assert", id, "", m)
			} else if res == resUnknown {
				px.w.ex.noteInconclusive("solver unknown on assertion " + id)
			}
		}
	}
	px.AddPC(c, "after assertion "+id)
}

func (px *PathCtx) violation(kind, id, msg string, m Model) {
	tags := append([]string{}, px.tags...)
	sort.Strings(tags)
	if len(px.noteTexts) > 0 {
		msg = strings.TrimSpace(msg + " notes: " + strings.Join(px.noteTexts, " | "))
	}
	v := &Violation{Harness: px.w.ex.harness, AssertID: id, Kind: kind, Tags: tags, Msg: msg,
		Vector: px.vectorNow(m), Trace: px.traceNow(m)}
	px.w.ex.addViolation(v)
}

// ---------------------------------------------------------------------

type counter struct {
	mu sync.Mutex
	n  int64
}

func (c *counter) add(d int64) { c.mu.Lock(); c.n += d; c.mu.Unlock() }
func (c *counter) get() int64  { c.mu.Lock(); defer c.mu.Unlock(); return c.n }

type Explorer struct {
	prog     *ssa.Program
	fn       *ssa.Function
	harness  string
	cfg      *Config
	mu       sync.Mutex
	cond     *sync.Cond
	stack    []WorkItem
	busy     int
	stopped  bool
	deadline time.Time

	paths, feasible, infeasible, stopPaths int64
	inconclusive                          map[string]int
	violations                            map[string]*Violation
	violationCount                        map[string]int
	reach                                 map[string]int
	notes                                 map[string]int
	steps                                 int64
	maxPathSteps                          int64
	nontrivial                            int64
	samples                               []map[string]any
	validate                              []map[string]any
	funcs                                 map[string]bool
	stubs                                 map[string]int
	branches, assertQueries               counter
	sat, unsat, unk, serr                 int
	solverS                               float64
	engineErrors                          []string
	distinct                              map[string]bool
}

func (ex *Explorer) push(w WorkItem) {
	ex.mu.Lock()
	ex.stack = append(ex.stack, w)
	ex.mu.Unlock()
	ex.cond.Signal()
}

func (ex *Explorer) pop() (WorkItem, bool) {
	ex.mu.Lock()
	defer ex.mu.Unlock()
	for {
		if ex.stopped {
			return WorkItem{}, false
		}
		if n := len(ex.stack); n > 0 {
			w := ex.stack[n-1]
			ex.stack = ex.stack[:n-1]
			ex.busy++
			return w, true
		}
		if ex.busy == 0 {
			ex.cond.Broadcast()
			return WorkItem{}, false
		}
		ex.cond.Wait()
	}
}

func (ex *Explorer) done() {
	ex.mu.Lock()
	ex.busy--
	if ex.busy == 0 && len(ex.stack) == 0 {
		ex.cond.Broadcast()
	}
	ex.mu.Unlock()
}

func (ex *Explorer) noteInconclusive(msg string) {
	ex.mu.Lock()
	ex.inconclusive[msg]++
	ex.mu.Unlock()
}

func (ex *Explorer) addViolation(v *Violation) {
	ex.mu.Lock()
	sig := v.Signature()
	ex.violationCount[sig]++
	if first, ok := ex.violations[sig]; !ok {
		v.noteKV(v.Vector)
		ex.violations[sig] = v
	} else if len(first.Alternates) < 12 && first.noteKV(v.Vector) {
		first.Alternates = append(first.Alternates, v.Vector)
	}
	ex.mu.Unlock()
}

type Worker struct {
	id     int
	ex     *Explorer
	ts     *TermStore
	solver *Solver
	interp *interpreter
}

func (ex *Explorer) runWorker(id int) {
	w := &Worker{id: id, ex: ex, ts: NewTermStore()}
	s, err := NewSolver(ex.cfg.Solver, ex.cfg.QueryTimeoutMs)
	if err != nil {
		ex.noteInconclusive("cannot start solver: " + err.Error())
		return
	}
	if ex.cfg.SolverLog != "" {
		s.log = openLog(fmt.Sprintf("%s.%d", ex.cfg.SolverLog, id))
	}
	w.solver = s
	defer s.Close()
	w.interp = newInterpreter(ex.prog, w.ts, ex.cfg)
	for {
		item, ok := ex.pop()
		if !ok {
			break
		}
		w.runPath(item)
		ex.done()
		// term store hygiene: a very large store slows hashing; restart it
		if len(w.ts.tab) > 2_000_000 {
			w.ts = NewTermStore()
			w.interp.ts = w.ts
			w.solver.NewPath()
		}
	}
	ex.mu.Lock()
	ex.sat += s.nSat
	ex.unsat += s.nUnsat
	ex.unk += s.nUnk
	ex.serr += s.nErr
	ex.solverS += s.seconds
	for f := range w.interp.funcsSeen {
		if w.interp.isRepoPkg(f.Pkg) || (f.Pkg == nil && f.Origin() != nil && w.interp.isRepoPkg(f.Origin().Pkg)) {
			ex.funcs[f.String()] = true
		}
	}
	for k, n := range w.interp.stubsSeen {
		ex.stubs[k] += n
	}
	ex.mu.Unlock()
}

func (w *Worker) runPath(item WorkItem) {
	ex := w.ex
	px := &PathCtx{w: w, prefix: item.Prefix, model: item.Model, maxSteps: ex.cfg.MaxSteps,
		vector: map[string]uint64{}}
	if px.model == nil {
		px.model = Model{}
	}
	it := w.interp
	it.px = px
	it.ts = w.ts
	it.resetPath()
	w.solver.NewPath()

	kind := "ok"
	msg := ""
	func() {
		defer func() {
			r := recover()
			if r == nil {
				return
			}
			switch e := r.(type) {
			case pathEnd:
				kind, msg = e.kind, e.msg
			case targetPanic:
				kind, msg = "panic", toString(e.v)+" at "+e.where
			case engineError:
				kind, msg = "engine-error", e.msg
			default:
				kind = "engine-error"
				msg = fmt.Sprintf("host panic: %v\n%s", r, stackSummary())
			}
		}()
		it.runInits()
		call(it, nil, 0, ex.fn, nil)
	}()

	if kind == "panic" {
		id := "panic"
		if px.expectPanic != "" {
			kind = "ok"
		} else {
			px.violation("panic", id+":"+panicClass(msg), msg, px.model)
		}
	}

	ex.mu.Lock()
	defer ex.mu.Unlock()
	ex.paths++
	ex.steps += px.steps
	if px.steps > ex.maxPathSteps {
		ex.maxPathSteps = px.steps
	}
	for k, n := range px.notes {
		ex.notes[k] += n
	}
	switch kind {
	case "ok", "panic", "stop":
		ex.feasible++
		if kind == "stop" {
			ex.stopPaths++
		}
		for _, r := range px.reach {
			ex.reach[r]++
		}
		vec := px.vectorNow(px.model)
		key := fmt.Sprint(px.decs)
		if !ex.distinct[key] {
			ex.distinct[key] = true
			if px.asserts > 0 && px.solverDecisions() > 0 {
				ex.nontrivial++
			}
		}
		if len(ex.samples) < ex.cfg.Samples {
			ex.samples = append(ex.samples, map[string]any{"vector": vec, "tags": px.tags, "end": kind})
		}
		if kind == "ok" && len(px.trace) > 0 && (len(ex.validate) < ex.cfg.Validate || (ex.paths%97 == int64(ex.cfg.Seed%97) && len(ex.validate) < 4*ex.cfg.Validate)) {
			ex.validate = append(ex.validate, map[string]any{"vector": vec, "trace": px.traceNow(px.model)})
		}
	case "infeasible":
		ex.infeasible++
	case "inconclusive":
		ex.inconclusive[msg]++
	case "engine-error":
		ex.inconclusive["engine-error: "+firstLine(msg)]++
		if len(ex.engineErrors) < 5 {
			ex.engineErrors = append(ex.engineErrors, msg)
		}
	}
	if ex.cfg.MaxPaths > 0 && ex.paths >= ex.cfg.MaxPaths && !ex.stopped {
		if len(ex.stack) > 0 || ex.busy > 1 {
			ex.inconclusive[fmt.Sprintf("path limit %d reached with work left", ex.cfg.MaxPaths)]++
		}
		ex.stopped = true
		ex.cond.Broadcast()
	}
	if !ex.deadline.IsZero() && time.Now().After(ex.deadline) && !ex.stopped {
		ex.inconclusive["wall-time limit reached with work left"]++
		ex.stopped = true
		ex.cond.Broadcast()
	}
}

func firstLine(s string) string {
	if i := strings.IndexByte(s, '\n'); i >= 0 {
		return s[:i]
	}
	return s
}

func panicClass(msg string) string {
	switch {
	case strings.Contains(msg, "index out of range"):
		return "index-out-of-range"
	case strings.Contains(msg, "slice bounds out of range"):
		return "slice-bounds"
	case strings.Contains(msg, "nil pointer"):
		return "nil-deref"
	case strings.Contains(msg, "divide by zero"):
		return "div-zero"
	case strings.Contains(msg, "nil map"):
		return "nil-map"
	case strings.Contains(msg, "interface conversion"):
		return "type-assert"
	}
	m := firstLine(msg)
	if i := strings.Index(m, " at "); i >= 0 {
		m = m[:i]
	}
	if len(m) > 60 {
		m = m[:60]
	}
	return m
}

// solverDecisions counts the decisions of this path that the solver had a say in.
func (px *PathCtx) solverDecisions() int {
	n := 0
	for _, d := range px.decs {
		if d.K == 'b' || d.K == 'p' {
			n++
		}
	}
	return n
}

// addConj appends a conjunct to the path condition and records variables it
// pins to a constant (x == k), so that later consumers (checksums) can see
// through to the concrete value.
func (px *PathCtx) addConj(c *Term) {
	px.pc = append(px.pc, c)
	px.notePins(c)
}

func (px *PathCtx) notePins(c *Term) {
	switch c.op {
	case opEq:
		a, b := c.x[0], c.x[1]
		if b.op == opConst && a.op != opConst {
			if px.pins == nil {
				px.pins = map[*Term]uint64{}
			}
			px.pins[a] = b.c
		} else if a.op == opConst && b.op != opConst {
			if px.pins == nil {
				px.pins = map[*Term]uint64{}
			}
			px.pins[b] = a.c
		}
	case opBAnd:
		px.notePins(c.x[0])
		px.notePins(c.x[1])
	}
}

// pinned returns the constant the path condition forces v to, if known syntactically.
func (px *PathCtx) pinned(v value) value {
	s, ok := v.(sym)
	if !ok {
		return v
	}
	if k, ok := px.pins[s.t]; ok {
		return fromBits(s.k, k)
	}
	return v
}
