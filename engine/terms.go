package main

// Hash-consed term DAG over QF_BV + Bool, with constant folding at
// construction, a concrete evaluator (used to keep a model in step with the
// path condition so that most branch queries are answered without the solver)
// and an SMT-LIB2 printer.

import (
	"fmt"
	"strings"
)

type opKind uint8

const (
	opConst opKind = iota
	opVar
	opAdd
	opSub
	opMul
	opUDiv
	opURem
	opSDiv
	opSRem
	opAnd
	opOr
	opXor
	opShl
	opLShr
	opAShr
	opNot // bitwise / boolean not
	opNeg
	opConcat
	opExtract // a = hi, b = lo
	opZExt    // to width w
	opSExt
	opEq
	opUlt
	opUle
	opSlt
	opSle
	opBAnd // boolean
	opBOr
	opIte
)

var opNames = [...]string{"const", "var", "bvadd", "bvsub", "bvmul", "bvudiv", "bvurem", "bvsdiv", "bvsrem",
	"bvand", "bvor", "bvxor", "bvshl", "bvlshr", "bvashr", "not", "bvneg", "concat", "extract", "zero_extend",
	"sign_extend", "=", "bvult", "bvule", "bvslt", "bvsle", "and", "or", "ite"}

// Term: w == 0 means Bool, otherwise a bit-vector of width w (1..64).
type Term struct {
	op    opKind
	w     uint8
	id    int32
	c     uint64 // const value (masked); for Bool 0/1
	name  string // var name
	x     []*Term
	a, b  uint8 // extract hi, lo
	epoch int32 // solver emission epoch
	depth int32
}

type termKey struct {
	op         opKind
	w          uint8
	c          uint64
	name       string
	x0, x1, x2 int32
	a, b       uint8
}

type TermStore struct {
	tab    map[termKey]*Term
	nextID int32
	tru    *Term
	fls    *Term
}

func NewTermStore() *TermStore {
	ts := &TermStore{tab: make(map[termKey]*Term)}
	ts.tru = ts.mk(&Term{op: opConst, w: 0, c: 1})
	ts.fls = ts.mk(&Term{op: opConst, w: 0, c: 0})
	return ts
}

func mask(w uint8) uint64 {
	if w >= 64 {
		return ^uint64(0)
	}
	return (uint64(1) << w) - 1
}

func (ts *TermStore) mk(t *Term) *Term {
	k := termKey{op: t.op, w: t.w, c: t.c, name: t.name, a: t.a, b: t.b, x0: -1, x1: -1, x2: -1}
	d := int32(0)
	for i, x := range t.x {
		switch i {
		case 0:
			k.x0 = x.id
		case 1:
			k.x1 = x.id
		case 2:
			k.x2 = x.id
		}
		if x.depth > d {
			d = x.depth
		}
	}
	if e, ok := ts.tab[k]; ok {
		return e
	}
	t.id = ts.nextID
	t.depth = d + 1
	ts.nextID++
	ts.tab[k] = t
	return t
}

func (t *Term) IsConst() bool { return t.op == opConst }
func (t *Term) IsBool() bool  { return t.w == 0 }

func (ts *TermStore) Const(w uint8, v uint64) *Term {
	if w == 0 {
		if v != 0 {
			return ts.tru
		}
		return ts.fls
	}
	return ts.mk(&Term{op: opConst, w: w, c: v & mask(w)})
}

func (ts *TermStore) Bool(b bool) *Term {
	if b {
		return ts.tru
	}
	return ts.fls
}

func (ts *TermStore) Var(w uint8, name string) *Term {
	return ts.mk(&Term{op: opVar, w: w, name: name})
}

func sext64(v uint64, w uint8) int64 {
	if w >= 64 {
		return int64(v)
	}
	sh := 64 - w
	return int64(v<<sh) >> sh
}

// evalOp computes op on constants.
func evalOp(op opKind, w uint8, a, b uint64, aw uint8) uint64 {
	m := mask(w)
	switch op {
	case opAdd:
		return (a + b) & m
	case opSub:
		return (a - b) & m
	case opMul:
		return (a * b) & m
	case opUDiv:
		if b == 0 {
			return m
		}
		return (a / b) & m
	case opURem:
		if b == 0 {
			return a
		}
		return (a % b) & m
	case opSDiv:
		sa, sb := sext64(a, w), sext64(b, w)
		if sb == 0 {
			if sa < 0 {
				return 1
			}
			return m
		}
		if sb == -1 {
			return uint64(-sa) & m
		}
		return uint64(sa/sb) & m
	case opSRem:
		sa, sb := sext64(a, w), sext64(b, w)
		if sb == 0 {
			return a
		}
		if sb == -1 {
			return 0
		}
		return uint64(sa%sb) & m
	case opAnd:
		return a & b
	case opOr:
		return a | b
	case opXor:
		return a ^ b
	case opShl:
		if b >= uint64(w) {
			return 0
		}
		return (a << b) & m
	case opLShr:
		if b >= uint64(w) {
			return 0
		}
		return a >> b
	case opAShr:
		sa := sext64(a, w)
		if b >= uint64(w) {
			if sa < 0 {
				return m
			}
			return 0
		}
		return uint64(sa>>b) & m
	case opEq:
		return b2u(a == b)
	case opUlt:
		return b2u(a < b)
	case opUle:
		return b2u(a <= b)
	case opSlt:
		return b2u(sext64(a, aw) < sext64(b, aw))
	case opSle:
		return b2u(sext64(a, aw) <= sext64(b, aw))
	}
	panic("evalOp " + opNames[op])
}

func b2u(b bool) uint64 {
	if b {
		return 1
	}
	return 0
}

// Bin builds a binary bit-vector operation (result width = operand width).
func (ts *TermStore) Bin(op opKind, x, y *Term) *Term {
	if x.w != y.w {
		panic(fmt.Sprintf("Bin %s width mismatch %d %d", opNames[op], x.w, y.w))
	}
	w := x.w
	if x.op == opConst && y.op == opConst {
		return ts.Const(w, evalOp(op, w, x.c, y.c, w))
	}
	// light algebraic simplification
	switch op {
	case opAdd:
		if x.op == opConst && x.c == 0 {
			return y
		}
		if y.op == opConst && y.c == 0 {
			return x
		}
		// (a + c1) + c2
		if y.op == opConst && x.op == opAdd && x.x[1].op == opConst {
			return ts.Bin(opAdd, x.x[0], ts.Const(w, x.x[1].c+y.c))
		}
		if x.op == opConst { // canonical: const on the right
			return ts.Bin(opAdd, y, x)
		}
	case opSub:
		if y.op == opConst && y.c == 0 {
			return x
		}
		if x == y {
			return ts.Const(w, 0)
		}
		if y.op == opConst {
			return ts.Bin(opAdd, x, ts.Const(w, -y.c))
		}
	case opMul:
		if x.op == opConst && x.c == 1 {
			return y
		}
		if y.op == opConst && y.c == 1 {
			return x
		}
		if (x.op == opConst && x.c == 0) || (y.op == opConst && y.c == 0) {
			return ts.Const(w, 0)
		}
	case opAnd:
		if x == y {
			return x
		}
		if x.op == opConst {
			x, y = y, x
		}
		if y.op == opConst {
			if y.c == 0 {
				return y
			}
			if y.c == mask(w) {
				return x
			}
			// (zext a) & c where c covers all of a's bits
			if x.op == opZExt && y.c&mask(x.x[0].w) == mask(x.x[0].w) {
				return x
			}
			if x.op == opZExt && y.c&mask(x.x[0].w) == y.c {
				return ts.ZExt(ts.Bin(opAnd, x.x[0], ts.Const(x.x[0].w, y.c)), w)
			}
		}
	case opOr:
		if x == y {
			return x
		}
		if x.op == opConst {
			x, y = y, x
		}
		if y.op == opConst {
			if y.c == 0 {
				return x
			}
			if y.c == mask(w) {
				return y
			}
		}
	case opXor:
		if x == y {
			return ts.Const(w, 0)
		}
		if x.op == opConst && x.c == 0 {
			return y
		}
		if y.op == opConst && y.c == 0 {
			return x
		}
	case opShl, opLShr, opAShr:
		if y.op == opConst && y.c == 0 {
			return x
		}
		if x.op == opConst && x.c == 0 {
			return x
		}
		if y.op == opConst && y.c >= uint64(w) && op != opAShr {
			return ts.Const(w, 0)
		}
		// (zext a) >> k with k >= width(a) is 0
		if op == opLShr && y.op == opConst && x.op == opZExt && y.c >= uint64(x.x[0].w) {
			return ts.Const(w, 0)
		}
	case opUDiv, opURem, opSDiv, opSRem:
		if y.op == opConst && y.c == 1 {
			if op == opUDiv || op == opSDiv {
				return x
			}
			return ts.Const(w, 0)
		}
	}
	return ts.mk(&Term{op: op, w: w, x: []*Term{x, y}})
}

func (ts *TermStore) Not(x *Term) *Term {
	if x.op == opConst {
		if x.w == 0 {
			return ts.Bool(x.c == 0)
		}
		return ts.Const(x.w, ^x.c)
	}
	if x.op == opNot {
		return x.x[0]
	}
	return ts.mk(&Term{op: opNot, w: x.w, x: []*Term{x}})
}

func (ts *TermStore) Neg(x *Term) *Term {
	if x.op == opConst {
		return ts.Const(x.w, -x.c)
	}
	return ts.mk(&Term{op: opNeg, w: x.w, x: []*Term{x}})
}

// umax returns an upper bound of the unsigned value of t (cheap syntactic analysis).
func umax(t *Term) uint64 {
	switch t.op {
	case opConst:
		return t.c
	case opZExt:
		return umax(t.x[0])
	case opAnd:
		a, b := umax(t.x[0]), umax(t.x[1])
		if a < b {
			return a
		}
		return b
	case opIte:
		a, b := umax(t.x[1]), umax(t.x[2])
		if a > b {
			return a
		}
		return b
	case opLShr:
		if t.x[1].op == opConst && t.x[1].c < 64 {
			return umax(t.x[0]) >> t.x[1].c
		}
	}
	return mask(t.w)
}

// Cmp builds a comparison (result Bool).
func (ts *TermStore) Cmp(op opKind, x, y *Term) *Term {
	if x.w != y.w {
		panic(fmt.Sprintf("Cmp %s width mismatch %d %d", opNames[op], x.w, y.w))
	}
	if x.op == opConst && y.op == opConst {
		return ts.Bool(evalOp(op, 0, x.c, y.c, x.w) != 0)
	}
	switch op {
	case opEq:
		if x == y {
			return ts.tru
		}
		if x.w == 0 { // boolean equality
			if y.op == opConst {
				x, y = y, x
			}
			if x.op == opConst {
				if x.c != 0 {
					return y
				}
				return ts.Not(y)
			}
		} else {
			if x.op == opConst {
				x, y = y, x
			}
			if y.op == opConst {
				if y.c > umax(x) {
					return ts.fls
				}
				// zext(a) == c  -> a == c'
				if x.op == opZExt {
					return ts.Cmp(opEq, x.x[0], ts.Const(x.x[0].w, y.c))
				}
				// ite(c, k1, k2) == k
				if x.op == opIte && x.x[1].op == opConst && x.x[2].op == opConst {
					t1 := x.x[1].c == y.c
					t2 := x.x[2].c == y.c
					switch {
					case t1 && t2:
						return ts.tru
					case t1:
						return x.x[0]
					case t2:
						return ts.Not(x.x[0])
					default:
						return ts.fls
					}
				}
			}
			if x.id > y.id && y.op != opConst {
				x, y = y, x
			}
		}
	case opUlt:
		if x == y {
			return ts.fls
		}
		if y.op == opConst && y.c == 0 {
			return ts.fls
		}
		if y.op == opConst && umax(x) < y.c {
			return ts.tru
		}
		if x.op == opZExt && y.op == opZExt && x.x[0].w == y.x[0].w {
			return ts.Cmp(opUlt, x.x[0], y.x[0])
		}
	case opUle:
		if x == y {
			return ts.tru
		}
		if x.op == opConst && x.c == 0 {
			return ts.tru
		}
		if y.op == opConst && umax(x) <= y.c {
			return ts.tru
		}
		if x.op == opZExt && y.op == opZExt && x.x[0].w == y.x[0].w {
			return ts.Cmp(opUle, x.x[0], y.x[0])
		}
	case opSlt:
		if x == y {
			return ts.fls
		}
		// both provably non-negative -> unsigned compare
		if umax(x) <= mask(x.w)>>1 && umax(y) <= mask(y.w)>>1 {
			return ts.Cmp(opUlt, x, y)
		}
		// ite(c,k1,k2) < k
		if x.op == opIte && y.op == opConst && x.x[1].op == opConst && x.x[2].op == opConst {
			t1 := sext64(x.x[1].c, x.w) < sext64(y.c, x.w)
			t2 := sext64(x.x[2].c, x.w) < sext64(y.c, x.w)
			return ts.iteBool(x.x[0], t1, t2)
		}
		if y.op == opIte && x.op == opConst && y.x[1].op == opConst && y.x[2].op == opConst {
			t1 := sext64(x.c, x.w) < sext64(y.x[1].c, x.w)
			t2 := sext64(x.c, x.w) < sext64(y.x[2].c, x.w)
			return ts.iteBool(y.x[0], t1, t2)
		}
	case opSle:
		if x == y {
			return ts.tru
		}
		if umax(x) <= mask(x.w)>>1 && umax(y) <= mask(y.w)>>1 {
			return ts.Cmp(opUle, x, y)
		}
		if x.op == opIte && y.op == opConst && x.x[1].op == opConst && x.x[2].op == opConst {
			t1 := sext64(x.x[1].c, x.w) <= sext64(y.c, x.w)
			t2 := sext64(x.x[2].c, x.w) <= sext64(y.c, x.w)
			return ts.iteBool(x.x[0], t1, t2)
		}
		if y.op == opIte && x.op == opConst && y.x[1].op == opConst && y.x[2].op == opConst {
			t1 := sext64(x.c, x.w) <= sext64(y.x[1].c, x.w)
			t2 := sext64(x.c, x.w) <= sext64(y.x[2].c, x.w)
			return ts.iteBool(y.x[0], t1, t2)
		}
	}
	return ts.mk(&Term{op: op, w: 0, x: []*Term{x, y}})
}

func (ts *TermStore) iteBool(c *Term, t1, t2 bool) *Term {
	switch {
	case t1 && t2:
		return ts.tru
	case t1:
		return c
	case t2:
		return ts.Not(c)
	}
	return ts.fls
}

func (ts *TermStore) And(x, y *Term) *Term {
	if x.op == opConst {
		if x.c != 0 {
			return y
		}
		return x
	}
	if y.op == opConst {
		if y.c != 0 {
			return x
		}
		return y
	}
	if x == y {
		return x
	}
	return ts.mk(&Term{op: opBAnd, w: 0, x: []*Term{x, y}})
}

func (ts *TermStore) Or(x, y *Term) *Term {
	if x.op == opConst {
		if x.c != 0 {
			return x
		}
		return y
	}
	if y.op == opConst {
		if y.c != 0 {
			return y
		}
		return x
	}
	if x == y {
		return x
	}
	return ts.mk(&Term{op: opBOr, w: 0, x: []*Term{x, y}})
}

func (ts *TermStore) Ite(c, x, y *Term) *Term {
	if c.op == opConst {
		if c.c != 0 {
			return x
		}
		return y
	}
	if x == y {
		return x
	}
	if x.w != y.w {
		panic("Ite width mismatch")
	}
	if x.w == 0 {
		if x.op == opConst && y.op == opConst {
			if x.c != 0 {
				return c
			}
			return ts.Not(c)
		}
	}
	return ts.mk(&Term{op: opIte, w: x.w, x: []*Term{c, x, y}})
}

func (ts *TermStore) ZExt(x *Term, w uint8) *Term {
	if x.w == w {
		return x
	}
	if x.w > w {
		return ts.Extract(x, w-1, 0)
	}
	if x.op == opConst {
		return ts.Const(w, x.c)
	}
	if x.op == opZExt {
		return ts.ZExt(x.x[0], w)
	}
	return ts.mk(&Term{op: opZExt, w: w, x: []*Term{x}})
}

func (ts *TermStore) SExt(x *Term, w uint8) *Term {
	if x.w == w {
		return x
	}
	if x.w > w {
		return ts.Extract(x, w-1, 0)
	}
	if x.op == opConst {
		return ts.Const(w, uint64(sext64(x.c, x.w)))
	}
	if x.op == opZExt { // sign bit is 0
		return ts.ZExt(x.x[0], w)
	}
	return ts.mk(&Term{op: opSExt, w: w, x: []*Term{x}})
}

func (ts *TermStore) Extract(x *Term, hi, lo uint8) *Term {
	if lo == 0 && hi == x.w-1 {
		return x
	}
	w := hi - lo + 1
	if x.op == opConst {
		return ts.Const(w, x.c>>lo)
	}
	if (x.op == opZExt || x.op == opSExt) && lo == 0 {
		in := x.x[0]
		if w <= in.w {
			return ts.Extract(in, hi, 0)
		}
		if x.op == opZExt {
			return ts.ZExt(in, w)
		}
		return ts.SExt(in, w)
	}
	if x.op == opZExt && lo >= x.x[0].w {
		return ts.Const(w, 0)
	}
	if x.op == opExtract {
		return ts.Extract(x.x[0], x.b+hi, x.b+lo)
	}
	// distribute over bitwise ops when extracting the low bits
	if lo == 0 {
		switch x.op {
		case opAnd, opOr, opXor, opAdd, opSub:
			return ts.Bin(x.op, ts.Extract(x.x[0], hi, 0), ts.Extract(x.x[1], hi, 0))
		}
	}
	return ts.mk(&Term{op: opExtract, w: w, a: hi, b: lo, x: []*Term{x}})
}

// Eval evaluates t under the assignment (missing variables read 0).
type Model map[string]uint64

type evalCache struct {
	m     Model
	cache map[int32]uint64
}

func newEval(m Model) *evalCache { return &evalCache{m: m, cache: make(map[int32]uint64)} }

func (e *evalCache) Eval(t *Term) uint64 {
	switch t.op {
	case opConst:
		return t.c
	case opVar:
		return e.m[t.name] & maskB(t.w)
	}
	if v, ok := e.cache[t.id]; ok {
		return v
	}
	var v uint64
	switch t.op {
	case opNot:
		if t.w == 0 {
			v = 1 - e.Eval(t.x[0])
		} else {
			v = ^e.Eval(t.x[0]) & mask(t.w)
		}
	case opNeg:
		v = -e.Eval(t.x[0]) & mask(t.w)
	case opConcat:
		v = (e.Eval(t.x[0])<<t.x[1].w | e.Eval(t.x[1])) & mask(t.w)
	case opExtract:
		v = (e.Eval(t.x[0]) >> t.b) & mask(t.w)
	case opZExt:
		v = e.Eval(t.x[0])
	case opSExt:
		v = uint64(sext64(e.Eval(t.x[0]), t.x[0].w)) & mask(t.w)
	case opBAnd:
		if e.Eval(t.x[0]) != 0 && e.Eval(t.x[1]) != 0 {
			v = 1
		}
	case opBOr:
		if e.Eval(t.x[0]) != 0 || e.Eval(t.x[1]) != 0 {
			v = 1
		}
	case opIte:
		if e.Eval(t.x[0]) != 0 {
			v = e.Eval(t.x[1])
		} else {
			v = e.Eval(t.x[2])
		}
	case opEq, opUlt, opUle, opSlt, opSle:
		v = evalOp(t.op, 0, e.Eval(t.x[0]), e.Eval(t.x[1]), t.x[0].w)
	default:
		v = evalOp(t.op, t.w, e.Eval(t.x[0]), e.Eval(t.x[1]), t.w)
	}
	e.cache[t.id] = v
	return v
}

func maskB(w uint8) uint64 {
	if w == 0 {
		return 1
	}
	return mask(w)
}

func (ts *TermStore) Concat(x, y *Term) *Term {
	w := x.w + y.w
	if x.op == opConst && y.op == opConst {
		return ts.Const(w, x.c<<y.w|y.c)
	}
	if x.op == opConst && x.c == 0 {
		return ts.ZExt(y, w)
	}
	return ts.mk(&Term{op: opConcat, w: w, x: []*Term{x, y}})
}

// ---- SMT-LIB printing ----

func sortOf(w uint8) string {
	if w == 0 {
		return "Bool"
	}
	return fmt.Sprintf("(_ BitVec %d)", w)
}

func constLit(t *Term) string {
	if t.w == 0 {
		if t.c != 0 {
			return "true"
		}
		return "false"
	}
	if t.w%4 == 0 {
		return fmt.Sprintf("#x%0*x", int(t.w/4), t.c)
	}
	return fmt.Sprintf("#b%0*b", int(t.w), t.c)
}

func smtName(name string) string {
	return "|" + strings.NewReplacer("|", "_", "\\", "_").Replace(name) + "|"
}

// ref returns the SMT reference to an already-emitted term.
func ref(t *Term) string {
	switch t.op {
	case opConst:
		return constLit(t)
	case opVar:
		return smtName(t.name)
	}
	return fmt.Sprintf("t%d", t.id)
}

// emit writes definitions for t (and sub-terms) not yet emitted in this epoch.
func emit(sb *strings.Builder, t *Term, epoch int32, vars *[]*Term) {
	if t.op == opConst || t.epoch == epoch {
		return
	}
	// iterative post-order to avoid deep recursion
	type fr struct {
		t *Term
		i int
	}
	stack := []fr{{t, 0}}
	for len(stack) > 0 {
		top := &stack[len(stack)-1]
		tt := top.t
		if tt.op == opConst || tt.epoch == epoch {
			stack = stack[:len(stack)-1]
			continue
		}
		if top.i < len(tt.x) {
			c := tt.x[top.i]
			top.i++
			if c.op != opConst && c.epoch != epoch {
				stack = append(stack, fr{c, 0})
			}
			continue
		}
		tt.epoch = epoch
		stack = stack[:len(stack)-1]
		if tt.op == opVar {
			fmt.Fprintf(sb, "(declare-const %s %s)\n", smtName(tt.name), sortOf(tt.w))
			if vars != nil {
				*vars = append(*vars, tt)
			}
			continue
		}
		fmt.Fprintf(sb, "(define-fun t%d () %s ", tt.id, sortOf(tt.w))
		switch tt.op {
		case opExtract:
			fmt.Fprintf(sb, "((_ extract %d %d) %s)", tt.a, tt.b, ref(tt.x[0]))
		case opZExt:
			fmt.Fprintf(sb, "((_ zero_extend %d) %s)", tt.w-tt.x[0].w, ref(tt.x[0]))
		case opSExt:
			fmt.Fprintf(sb, "((_ sign_extend %d) %s)", tt.w-tt.x[0].w, ref(tt.x[0]))
		case opNot:
			if tt.w == 0 {
				fmt.Fprintf(sb, "(not %s)", ref(tt.x[0]))
			} else {
				fmt.Fprintf(sb, "(bvnot %s)", ref(tt.x[0]))
			}
		default:
			sb.WriteString("(")
			sb.WriteString(opNames[tt.op])
			for _, c := range tt.x {
				sb.WriteString(" ")
				sb.WriteString(ref(c))
			}
			sb.WriteString(")")
		}
		sb.WriteString(")\n")
	}
}

func (t *Term) String() string {
	switch t.op {
	case opConst:
		return constLit(t)
	case opVar:
		return t.name
	}
	if t.depth > 6 {
		return fmt.Sprintf("t%d{%s…}", t.id, opNames[t.op])
	}
	var sb strings.Builder
	sb.WriteString("(")
	sb.WriteString(opNames[t.op])
	if t.op == opExtract {
		fmt.Fprintf(&sb, "[%d:%d]", t.a, t.b)
	}
	for _, c := range t.x {
		sb.WriteString(" ")
		sb.WriteString(c.String())
	}
	sb.WriteString(")")
	return sb.String()
}
