//go:build verif

package memstore

import (
	"errors"

	"github.com/thomasjungblut/go-sstables/recordio"
	"github.com/thomasjungblut/go-sstables/sstables"
	"github.com/thomasjungblut/go-sstables/vrt"
)

type vEnt struct {
	k    []byte
	v    []byte
	tomb bool
}

type vModel struct{ ents []*vEnt }

func (m *vModel) find(k []byte) *vEnt {
	for _, e := range m.ents {
		if vrt.EqBytes(e.k, k) {
			return e
		}
	}
	return nil
}

// sorted returns the entries in ascending key order.
func (m *vModel) sorted() []*vEnt {
	out := append([]*vEnt{}, m.ents...)
	for i := 0; i < len(out); i++ {
		for j := i + 1; j < len(out); j++ {
			if vrt.CmpBytes(out[j].k, out[i].k) < 0 {
				out[i], out[j] = out[j], out[i]
			}
		}
	}
	return out
}

func vValue(k string) []byte {
	switch vrt.Choose(k+".kind", 4) {
	case 0:
		return nil
	case 1:
		return []byte{}
	case 3:
		// a value longer than key plus any other value: the size estimate must survive shrinking overwrites
		return []byte{7, 8, 9}
	}
	return []byte{vrt.Byte(k)}
}

// vRunOps drives a program of memstore calls against the reference map with tombstones.
func vRunOps(ms MemStoreI, model *vModel, steps int, universe [][]byte, opSet []int) {
	var offered uint64 // Σ len(k)+len(v) of everything ever offered: the size counter can never exceed it
	n := vrt.Range("steps", 0, steps)
	for s := 0; s < n; s++ {
		op := opSet[vrt.Choose(vrt.K("op", s), len(opSet))]
		nk := len(universe)
		if op <= 1 {
			nk++ // the nil key is only offered to Add / Upsert, where its rejection is documented
		}
		ki := vrt.Choose(vrt.K("key", s), nk)
		var k []byte
		if ki < len(universe) {
			k = universe[ki]
		}
		e := model.find(k)
		switch op {
		case 0, 1: // Add, Upsert
			v := vValue(vrt.K("v", s))
			var err error
			if op == 0 {
				err = ms.Add(k, v)
			} else {
				err = ms.Upsert(k, v)
			}
			switch {
			case k == nil:
				vrt.Assert(errors.Is(err, KeyNil), "mem/nil-key-rejected")
			case v == nil:
				vrt.Assert(errors.Is(err, ValueNil), "mem/nil-value-rejected")
			case op == 0 && e != nil && !e.tomb:
				vrt.Assert(errors.Is(err, KeyAlreadyExists), "mem/add-on-live-key-rejected")
			default:
				vrt.Assert(err == nil, "mem/add-upsert-accepted")
				offered += uint64(len(k) + len(v))
				if e == nil {
					model.ents = append(model.ents, &vEnt{k: k, v: v})
				} else {
					if e.tomb {
						vrt.Reach("mem/re-add-tombstoned-key")
					}
					e.v, e.tomb = v, false
				}
			}
		case 2: // Delete
			err := ms.Delete(k)
			if e == nil {
				vrt.Assert(errors.Is(err, KeyNotFound), "mem/delete-absent-is-not-found")
			} else {
				vrt.Assert(err == nil, "mem/delete-present-no-error")
				e.v, e.tomb = nil, true
			}
		case 3: // DeleteIfExists
			vrt.Assert(ms.DeleteIfExists(k) == nil, "mem/delete-if-exists-no-error")
			if e != nil {
				e.v, e.tomb = nil, true
			}
		case 4: // Tombstone
			vrt.Assert(ms.Tombstone(k) == nil, "mem/tombstone-no-error")
			if e == nil {
				offered += uint64(len(k))
				model.ents = append(model.ents, &vEnt{k: k, tomb: true})
			} else {
				e.v, e.tomb = nil, true
			}
		case 5: // Get
			got, err := ms.Get(k)
			switch {
			case e == nil:
				vrt.Assert(errors.Is(err, KeyNotFound), "mem/get-absent-is-not-found")
			case e.tomb:
				vrt.Assert(errors.Is(err, KeyTombstoned), "mem/get-tombstoned-says-so")
			default:
				vrt.Assert(err == nil, "mem/get-live-no-error")
				vrt.Assert(vrt.EqBytes(got, e.v), "mem/get-live-value")
			}
		case 6: // Contains
			vrt.Assert(ms.Contains(k) == (e != nil && !e.tomb), "mem/contains-is-false-for-absent-and-tombstoned")
		case 7: // IsTombstoned
			vrt.Assert(ms.IsTombstoned(k) == (e != nil && e.tomb), "mem/is-tombstoned")
		}
		vrt.Assert(ms.Size() == len(model.ents), "mem/size-counts-tombstones")
		vrt.Assert(ms.(*MemStore).estimatedSize <= offered, "mem/size-estimate-never-wraps")
	}

}

var vAllOps = []int{0, 1, 2, 3, 4, 5, 6, 7}

// H_C14_Ops: every result of every call equals the reference map with tombstones; iteration order; sizes.
func H_C14_Ops() {
	vrt.RandPromoteBudget(1)
	ms := NewMemStore()
	model := &vModel{}
	steps := 3
	universe := [][]byte{{vrt.Byte("ka")}, {vrt.Byte("kb")}}
	if vrt.Thorough() {
		// three keys (two symbolic bytes and the empty key); four steps over them are out of reach (more than
		// three million paths)
		universe = append(universe, []byte{})
	} else if vrt.Choose("kb.empty", 2) == 1 {
		// quick tier: the second key is a symbolic byte or the empty (non-nil) key
		universe[1] = []byte{}
	}
	vRunOps(ms, model, steps, universe, vAllOps)
	vCheckIteration(ms, model)
	vrt.Trace("entries", uint64(len(model.ents)))
	vrt.Reach("mem/end")
}

func vCheckIteration(ms MemStoreI, model *vModel) {
	want := model.sorted()
	// in-memory iteration: ascending, nil for tombstones
	it := ms.SStableIterator()
	for i := 0; i <= len(want); i++ {
		k, v, err := it.Next()
		if err != nil {
			vrt.Assert(errors.Is(err, sstables.Done), "mem/iterator-only-done-error")
			vrt.Assert(i == len(want), "mem/iterator-delivers-every-entry")
			break
		}
		vrt.Assert(i < len(want), "mem/iterator-delivers-only-entries")
		if i < len(want) {
			vrt.Assert(vrt.EqBytes(k, want[i].k), "mem/iterator-ascending-keys")
			if want[i].tomb {
				vrt.Assert(v == nil, "mem/iterator-nil-for-tombstone")
			} else {
				vrt.Assert(v != nil && vrt.EqBytes(v, want[i].v), "mem/iterator-live-value")
			}
		}
	}

}

// H_C14_Flush: flushing writes a table whose content equals the reference map (without / with tombstones),
// written by the real stream writer and read back by the real table reader.
func H_C14_Flush() {
	vrt.RandPromoteBudget(0)
	fs := sstables.VEnv()
	defer fs.Cleanup()
	ms := NewMemStore()
	model := &vModel{}
	steps := 3
	universe := [][]byte{{vrt.Byte("ka")}, {vrt.Byte("kb")}}
	if vrt.Thorough() {
		// three keys (two symbolic bytes and the empty key); four steps over them are out of reach (more than
		// three million paths)
		universe = append(universe, []byte{})
	} else if vrt.Choose("kb.empty", 2) == 1 {
		// quick tier: the second key is a symbolic byte or the empty (non-nil) key
		universe[1] = []byte{}
	}
	vRunOps(ms, model, steps, universe, []int{1, 2, 4}) // Upsert, Delete, Tombstone
	want := model.sorted()
	dir := fs.Path("flushed")
	fs.MkdirAll(dir)
	withTombs := vrt.Choose("flush", 2) == 1
	var ferr error
	if withTombs {
		ferr = ms.FlushWithTombstones(sstables.WriteBasePath(dir), sstables.WriteBufferSizeBytes(64))
	} else {
		ferr = ms.Flush(sstables.WriteBasePath(dir), sstables.WriteBufferSizeBytes(64))
	}
	vrt.Assert(ferr == nil, "mem/flush-no-error")
	r, err := sstables.NewSSTableReader(sstables.ReadBasePath(dir), sstables.ReadBufferSizeBytes(64))
	vrt.Assert(err == nil, "mem/flushed-table-opens")
	if err != nil {
		return
	}
	sc, err := r.Scan()
	vrt.Assert(err == nil, "mem/flushed-table-scan-no-error")
	pos := 0
	for _, e := range want {
		if e.tomb && !withTombs {
			continue
		}
		k, v, err := sc.Next()
		vrt.Assert(err == nil, "mem/flushed-table-has-every-expected-entry")
		if err != nil {
			break
		}
		vrt.Assert(vrt.EqBytes(k, e.k), "mem/flushed-table-keys")
		if e.tomb {
			vrt.Assert(v == nil, "mem/flushed-tombstone-is-nil-value")
		} else {
			vrt.Assert(vrt.EqBytes(v, e.v), "mem/flushed-table-values")
		}
		pos++
	}
	_, _, err = sc.Next()
	vrt.Assert(errors.Is(err, sstables.Done), "mem/flushed-table-has-nothing-else")
	vrt.Assert(r.MetaData().NumRecords == uint64(pos), "mem/flushed-table-record-count")
	r.Close()
	vrt.Trace("entries", uint64(len(want)))
	vrt.Trace("flushed", uint64(pos))
	vrt.Reach("mem/flush-end")
}

var _ = recordio.CompressionTypeNone
