//go:build verif

package skiplist

import (
	"errors"

	"github.com/thomasjungblut/go-sstables/vrt"
)

// vDistance is a comparator that keeps the documented contract (negative, zero, positive) without restricting
// itself to -1, 0, 1: the classic a - b.
type vDistance struct{}

func (vDistance) Compare(a, b uint8) int { return int(a) - int(b) }

// vShifted orders the keys by k xor 0x80 (128..255 come before 0..127): the zero value of the key type is then
// not the smallest key, which matters to code that confuses the list's sentinel node with an element.
type vShifted struct{}

func (vShifted) Compare(a, b uint8) int { return int(a^0x80) - int(b^0x80) }

// vFlip is the mask of the order in use: rank(k) = k xor vFlip is ascending in that order.
var vFlip uint8

func vRank(k uint8) uint8 { return k ^ vFlip }

// VComparator: the library's ordered comparator or the distance comparator (forked).
func VComparator() Comparator[uint8] {
	if vrt.Choose("cmp", 2) == 1 {
		vrt.Tag("distance-comparator")
		return vDistance{}
	}
	return OrderedComparator[uint8]{}
}

func vComparator() Comparator[uint8] {
	vFlip = 0
	switch vrt.Choose("cmp", 3) {
	case 1:
		vrt.Tag("distance-comparator")
		return vDistance{}
	case 2:
		vrt.Tag("shifted-comparator")
		vFlip = 0x80
		return vShifted{}
	}
	return OrderedComparator[uint8]{}
}

// vBuild inserts n distinct symbolic keys in symbolic order; value = insertion index.
func vBuild(nMax int) (MapI[uint8, uint8], []uint8) {
	n := vrt.Range("n", 0, nMax)
	m := NewSkipListMap[uint8, uint8](vComparator())
	keys := make([]uint8, n)
	for i := 0; i < n; i++ {
		keys[i] = vrt.Byte(vrt.K("k", i))
		for j := 0; j < i; j++ {
			vrt.Assume(keys[j] != keys[i])
		}
		m.Insert(keys[i], uint8(i))
	}
	return m, keys
}

// vSorted returns the indices of keys in ascending key order (oracle: selection sort).
func vSorted(keys []uint8) []int {
	idx := make([]int, len(keys))
	for i := range idx {
		idx[i] = i
	}
	for i := 0; i < len(idx); i++ {
		for j := i + 1; j < len(idx); j++ {
			if vRank(keys[idx[j]]) < vRank(keys[idx[i]]) {
				idx[i], idx[j] = idx[j], idx[i]
			}
		}
	}
	return idx
}

func vDrain(it IteratorI[uint8, uint8], max int) (ks, vs []uint8, ok bool) {
	for i := 0; i <= max; i++ {
		k, v, err := it.Next()
		if err != nil {
			vrt.Assert(errors.Is(err, Done), "iter/only-done-error")
			// Done must be sticky
			_, _, err2 := it.Next()
			vrt.Assert(errors.Is(err2, Done), "iter/done-is-sticky")
			return ks, vs, true
		}
		ks = append(ks, k)
		vs = append(vs, v)
	}
	return ks, vs, false
}

func vCheckSeq(keys []uint8, order []int, lo, hi uint8, useLo, useHi bool, ks, vs []uint8, ok bool, id string) {
	vrt.Assert(ok, id+"/terminates")
	want := 0
	for _, ix := range order {
		k := keys[ix]
		in := true
		if useLo && vRank(k) < vRank(lo) {
			in = false
		}
		if useHi && vRank(k) > vRank(hi) {
			in = false
		}
		if in {
			if want < len(ks) {
				vrt.Assert(vrt.And(ks[want] == k, vs[want] == uint8(ix)), id+"/element")
			}
			want++
		}
	}
	vrt.Assert(want == len(ks), id+"/count")
}

// H_C16_SkipGet: size, Get, Contains against a linear scan.
func H_C16_SkipGet() {
	m, keys := vBuild(vMaxKeys())
	vrt.Assert(m.Size() == len(keys), "skip/size")
	probe := vrt.Byte("probe")
	want := -1
	for i := range keys {
		if keys[i] == probe {
			want = i
		}
	}
	v, err := m.Get(probe)
	if want >= 0 {
		vrt.Reach("skip/get-present")
		vrt.Assert(err == nil, "skip/get-present-no-error")
		vrt.Assert(v == uint8(want), "skip/get-value")
		vrt.Assert(m.Contains(probe), "skip/contains-present")
	} else {
		vrt.Reach("skip/get-absent")
		vrt.Assert(errors.Is(err, NotFound), "skip/get-absent-notfound")
		vrt.Assert(!m.Contains(probe), "skip/contains-absent")
	}
	vrt.TraceBool("found", err == nil)
	vrt.Trace("v", uint64(v))
	vrt.Reach("skip/end")
}

// H_C16_SkipIter: full and starting-at iterators.
func H_C16_SkipIter() {
	m, keys := vBuild(vMaxKeys())
	order := vSorted(keys)
	it, err := m.Iterator()
	vrt.Assert(err == nil, "skip/iterator-no-error")
	ks, vs, ok := vDrain(it, len(keys))
	vCheckSeq(keys, order, 0, 0, false, false, ks, vs, ok, "skip/full")

	lo := vrt.Byte("lo")
	it2, err := m.IteratorStartingAt(lo)
	vrt.Assert(err == nil, "skip/starting-at-no-error")
	ks, vs, ok = vDrain(it2, len(keys))
	vCheckSeq(keys, order, lo, 0, true, false, ks, vs, ok, "skip/starting-at")
	vrt.Trace("n.start", uint64(len(ks)))
	vrt.Reach("skip/end")
}

// H_C16_SkipBetween: range iterator with inclusive bounds; lower > upper is rejected.
func H_C16_SkipBetween() {
	m, keys := vBuild(vMaxKeys())
	order := vSorted(keys)
	lo := vrt.Byte("lo")
	hi := vrt.Byte("hi")
	it, err := m.IteratorBetween(lo, hi)
	if vRank(lo) > vRank(hi) {
		vrt.Reach("skip/between-rejected")
		vrt.Assert(err != nil, "skip/between-lower-above-upper-rejected")
		vrt.Reach("skip/end")
		return
	}
	vrt.Assert(err == nil, "skip/between-no-error")
	ks, vs, ok := vDrain(it, len(keys))
	vCheckSeq(keys, order, lo, hi, true, true, ks, vs, ok, "skip/between")
	if len(ks) > 0 && ks[len(ks)-1] == hi {
		vrt.Reach("skip/between-upper-bound-hit-exactly")
	}
	vrt.Trace("n.between", uint64(len(ks)))
	vrt.Reach("skip/end")
}

// H_C16_SkipDup: inserting a key twice panics (documented REQUIRES).
func H_C16_SkipDup() {
	m, keys := vBuild(2)
	if len(keys) == 0 {
		return
	}
	vrt.ExpectPanic("duplicate insert")
	m.Insert(keys[vrt.Choose("dup", len(keys))], 9)
	vrt.Fail("skip/duplicate-insert-did-not-panic")
}

func vMaxKeys() int {
	if vrt.Thorough() {
		return 4
	}
	return 3
}

// H_C16_BytesComparator: the library's byte-slice comparator agrees in sign with the lexicographic order for all
// keys of length 0..3 and for all keys of exactly 8 bytes (a fixed-width fast path is the usual optimisation).
func H_C16_BytesComparator() {
	var a, b []byte
	if vrt.Choose("shape", 2) == 0 {
		a, b = vrt.Bytes("a", 3), vrt.Bytes("b", 3)
	} else {
		a, b = vrt.BytesN("a", 8), vrt.BytesN("b", 8)
		vrt.Reach("bytescmp/eight-byte-keys")
	}
	got := BytesComparator{}.Compare(a, b)
	want := vrt.CmpBytes(a, b)
	vrt.Assert((got < 0) == (want < 0), "bytescmp/negative-exactly-when-smaller")
	vrt.Assert((got == 0) == (want == 0), "bytescmp/zero-exactly-when-equal")
	vrt.Assert((got > 0) == (want > 0), "bytescmp/positive-exactly-when-greater")
	vrt.TraceBool("lt", got < 0)
	vrt.TraceBool("eq", got == 0)
	vrt.Reach("bytescmp/end")
}
