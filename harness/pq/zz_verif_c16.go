//go:build verif

package pq

import (
	"errors"

	"github.com/thomasjungblut/go-sstables/skiplist"
	"github.com/thomasjungblut/go-sstables/vrt"
)

type vIter struct {
	ctx  int
	keys []uint8
	vals []uint8
	pos  int
}

func (it *vIter) Next() (uint8, uint8, error) {
	if it.pos >= len(it.keys) {
		return 0, 0, Done
	}
	k, v := it.keys[it.pos], it.vals[it.pos]
	it.pos++
	return k, v, nil
}

func (it *vIter) Context() int { return it.ctx }

// H_C16_PQ: the queue over k ascending inputs returns every element exactly once, in non-descending key
// order, with the identity of its input; then Done (sticky).
func H_C16_PQ() {
	kMax, lMax := 3, 2
	if vrt.Thorough() {
		kMax, lMax = 4, 2
		if vrt.Choose("shape", 2) == 1 {
			kMax, lMax = 3, 3
		}
	}
	k := vrt.Range("inputs", 0, kMax)
	var its []IteratorWithContext[uint8, uint8, int]
	var raw []*vIter
	total := 0
	for i := 0; i < k; i++ {
		n := vrt.Range(vrt.K("in", i, "n"), 0, lMax)
		it := &vIter{ctx: i}
		for j := 0; j < n; j++ {
			key := vrt.Byte(vrt.K("in", i, "k", j))
			if j > 0 {
				vrt.Assume(it.keys[j-1] <= key) // ascending input (duplicates inside one input allowed)
			}
			it.keys = append(it.keys, key)
			it.vals = append(it.vals, uint8(16*i+j)) // value identifies (input, position)
		}
		total += n
		raw = append(raw, it)
		its = append(its, it)
	}
	q, err := NewPriorityQueue[uint8, uint8, int](skiplist.VComparator(), its)
	vrt.Assert(err == nil, "pq/init-no-error")

	seen := make([]bool, 64)
	var prev uint8
	n := 0
	for ; n <= total; n++ {
		key, val, ctx, err := q.Next()
		if err != nil {
			vrt.Assert(errors.Is(err, Done), "pq/only-done-error")
			break
		}
		vrt.Assert(n < total, "pq/not-more-than-all-elements")
		if n > 0 {
			vrt.Assert(prev <= key, "pq/non-descending")
		}
		prev = key
		// context identifies the input, value identifies the element of that input
		vrt.Assert(ctx >= 0 && ctx < k, "pq/context-in-range")
		pos := int(val) - 16*ctx
		vrt.Assert(pos >= 0 && pos < len(raw[ctx].keys), "pq/value-belongs-to-reported-input")
		vrt.Assert(raw[ctx].keys[pos] == key, "pq/key-belongs-to-value")
		vrt.Assert(!seen[val], "pq/element-returned-once")
		seen[val] = true
	}
	vrt.Assert(n == total, "pq/every-element-returned")
	_, _, _, err2 := q.Next()
	vrt.Assert(errors.Is(err2, Done), "pq/done-is-sticky")
	vrt.Trace("n", uint64(n))
	vrt.Reach("pq/end")
}

// H_C16_PQWide: many inputs of one element each: heap shapes with six and seven live inputs (removal of an
// exhausted input from a heap that has a second level of children on both sides).
func H_C16_PQWide() {
	k := 6
	if vrt.Thorough() {
		k = vrt.Range("inputs", 6, 7)
	}
	var its []IteratorWithContext[uint8, uint8, int]
	keys := make([]uint8, k)
	for i := 0; i < k; i++ {
		keys[i] = vrt.Byte(vrt.K("k", i))
		its = append(its, &vIter{ctx: i, keys: []uint8{keys[i]}, vals: []uint8{uint8(i)}})
	}
	q, err := NewPriorityQueue[uint8, uint8, int](skiplist.VComparator(), its)
	vrt.Assert(err == nil, "pqwide/init-no-error")
	seen := make([]bool, k)
	var prev uint8
	n := 0
	for ; n <= k; n++ {
		key, val, ctx, err := q.Next()
		if err != nil {
			vrt.Assert(errors.Is(err, Done), "pqwide/only-done-error")
			break
		}
		vrt.Assert(n < k, "pqwide/not-more-than-all-elements")
		if n > 0 {
			vrt.Assert(prev <= key, "pqwide/non-descending")
		}
		prev = key
		vrt.Assert(ctx >= 0 && ctx < k && int(val) == ctx, "pqwide/context-identifies-the-input")
		if ctx >= 0 && ctx < k {
			vrt.Assert(keys[ctx] == key, "pqwide/key-belongs-to-its-input")
			vrt.Assert(!seen[ctx], "pqwide/element-returned-once")
			seen[ctx] = true
		}
	}
	vrt.Assert(n == k, "pqwide/every-element-returned")
	vrt.Trace("n", uint64(n))
	vrt.Reach("pqwide/end")
}
