//go:build verif

package recordio

import (
	"errors"

	"github.com/thomasjungblut/go-sstables/vrt"
)

// vFlakySink is what the buffered writer writes to: it keeps the bytes in order and fails one Write call (the
// failAt-th, nothing of it is taken) - a transient fault, the calls after it succeed again.
type vFlakySink struct {
	data   []byte
	writes int
	failAt int
	failed bool
}

var vErrSink = errors.New("injected write failure")

func (s *vFlakySink) Write(p []byte) (int, error) {
	i := s.writes
	s.writes++
	if i == s.failAt {
		s.failed = true
		return 0, vErrSink
	}
	s.data = append(s.data, p...)
	return len(p), nil
}

func (s *vFlakySink) Seek(offset int64, whence int) (int64, error) { return offset, nil }
func (s *vFlakySink) Close() error                                 { return nil }

// H_C11_BufWriter: the buffered writer every file of the library is written through never absorbs a failed write of
// the file underneath: after one failing write call (any of them, transient) some Write or the final Flush reports
// an error; and whenever nothing was reported the file holds exactly the written bytes in order.
func H_C11_BufWriter() {
	bsz := vrt.Range("buf", 1, 4)
	sink := &vFlakySink{failAt: vrt.Range("fail", 0, 6)}
	w := NewWriterBuf(sink, make([]byte, bsz))
	n := vrt.Range("writes", 1, 3)
	var want []byte
	reported := false
	for i := 0; i < n && !reported; i++ {
		l := vrt.Range(vrt.K("len", i), 0, 6)
		p := make([]byte, l)
		for j := range p {
			p[j] = vrt.Byte(vrt.K("b", i, j))
		}
		nn, err := w.Write(p)
		if err != nil {
			reported = true
			break
		}
		vrt.Assert(nn == l, "bufwriter/accepted-write-takes-everything")
		want = append(want, p...)
	}
	if !reported && w.Flush() != nil {
		reported = true
	}
	if sink.failed {
		vrt.Reach("bufwriter/sink-failed")
		vrt.Assert(reported, "bufwriter/a-failed-write-underneath-is-reported")
	}
	if !reported {
		vrt.Assert(vrt.EqBytes(sink.data, want), "bufwriter/file-holds-the-written-bytes-in-order")
	}
	vrt.TraceBool("reported", reported)
	vrt.Trace("sink.len", uint64(len(sink.data)))
	vrt.Reach("bufwriter/end")
}
