//go:build verif

package recordio

import (
	"encoding/binary"
	"errors"
	"io"

	"github.com/thomasjungblut/go-sstables/vrt"
)

// vStored returns for each record the end of its header (= start of the stored payload).
func vHeaderEnds(file []byte, offs []uint64, size uint64, recs [][]byte, comp int) []uint64 {
	ends := make([]uint64, len(offs))
	for i := range offs {
		next := size
		if i+1 < len(offs) {
			next = offs[i+1]
		}
		stored := uint64(0)
		if recs[i] != nil {
			if comp == CompressionTypeNone {
				stored = uint64(len(recs[i]))
			} else {
				// marker(3) flag(1) len(1 byte, small) complen(1 byte, small)
				stored = uint64(file[offs[i]+5])
			}
		}
		ends[i] = next - stored
	}
	return ends
}

// H_C12_Truncate: a file cut at any length yields exactly the records wholly inside the prefix, then EOF or an error.
func H_C12_Truncate() {
	fs := vrt.NewFS()
	defer fs.Cleanup()
	vInstallContractCompressors()
	comp := vChooseComp()
	nMax := 2
	if vrt.Thorough() {
		nMax = 3
	}
	recs := vRecords(nMax, 3)
	p := fs.Path("f.rio")
	offs, size := vWriteFile(fs, p, comp, 64, recs)
	file := fs.ReadFile(p)
	cut := vrt.RangeClamp("cut", 0, int(size)) // (the natively compressed file is not as long as the stand-in one)
	fs.WriteFile(p, file[:cut])

	// records wholly inside the prefix
	whole := 0
	for i := range offs {
		end := size
		if i+1 < len(offs) {
			end = offs[i+1]
		}
		if end <= uint64(cut) {
			whole = i + 1
		}
	}
	if cut < FileHeaderSizeBytes {
		vrt.Reach("truncate/inside-file-header")
	}
	if whole < len(recs) && uint64(cut) > offs[whole] {
		vrt.Reach("truncate/inside-a-record")
	}

	rbuf := []int{1, 5, 64}[vrt.Choose("rbuf", 3)]
	r, err := NewFileReader(ReaderPath(p), ReaderBufferSizeBytes(rbuf))
	vrt.Assert(err == nil, "truncate/new-reader-no-error")
	if r.Open() == nil {
		n := 0
		for ; n <= len(recs); n++ {
			got, err := r.ReadNext()
			if err != nil {
				break
			}
			vrt.Assert(n < whole, "truncate/sequential-no-record-beyond-the-complete-ones")
			if n < len(recs) {
				vrt.Assert(vrt.SameBytes(got, recs[n]), "truncate/sequential-record-genuine-and-in-order")
			}
		}
		vrt.Assert(n == whole, "truncate/sequential-all-complete-records-delivered")
		vTraceU(comp, "seq.n", uint64(n))
		r.Close()
	} else {
		vrt.Assert(cut < FileHeaderSizeBytes, "truncate/open-fails-only-when-file-header-is-cut")
	}

	m, err := NewMemoryMappedReaderWithPath(p)
	if err == nil {
		if m.Open() == nil {
			for i := range recs {
				got, err := m.ReadNextAt(offs[i])
				if i < whole {
					vrt.Assert(err == nil, "truncate/random-access-complete-record-readable")
				}
				if err == nil {
					vrt.Assert(i < whole, "truncate/random-access-no-incomplete-record")
					vrt.Assert(vrt.SameBytes(got, recs[i]), "truncate/random-access-record-genuine")
				}
			}
		}
		m.Close()
	}
	vrt.Reach("truncate/end")
}

// H_C12_HeaderDamage: altering any byte of a record header makes reading that record fail.
func H_C12_HeaderDamage() {
	fs := vrt.NewFS()
	defer fs.Cleanup()
	vInstallContractCompressors()
	comp := vChooseComp()
	recs := vRecords(2, 3)
	vrt.Assume(len(recs) > 0)
	p := fs.Path("f.rio")
	offs, size := vWriteFile(fs, p, comp, 64, recs)
	file := fs.ReadFile(p)
	ends := vHeaderEnds(file, offs, size, recs, comp)
	victim := vrt.Choose("victim", len(recs))
	pos := vrt.Range("pos", int(offs[victim]), int(ends[victim])-1)
	nb := vrt.Byte("newbyte")
	vrt.Assume(nb != file[pos])
	switch {
	case uint64(pos) < offs[victim]+3:
		vrt.Reach("damage/marker-byte")
	case uint64(pos) == offs[victim]+3:
		vrt.Reach("damage/nil-flag")
	case uint64(pos) < offs[victim]+6:
		vrt.Reach("damage/length-byte")
	default:
		vrt.Reach("damage/checksum-byte")
		if uint64(pos) == ends[victim]-1 {
			vrt.Tag("last-checksum-byte")
		}
	}
	dmg := append([]byte{}, file...)
	dmg[pos] = nb
	fs.WriteFile(p, dmg)

	mode := vrt.Choose("reader", 3)
	switch mode {
	case 0, 2:
		skip := mode == 2
		// small read buffers too: the damaged header may straddle a refill
		rbuf := []int{64, 5, 12}[vrt.Choose("rbuf", 3)]
		r, err := NewFileReader(ReaderPath(p), ReaderBufferSizeBytes(rbuf))
		vrt.Assert(err == nil && r.Open() == nil, "damage/open-no-error")
		for i := 0; i < victim; i++ {
			got, err := r.ReadNext()
			vrt.Assert(err == nil, "damage/records-before-the-damage-readable")
			vrt.Assert(vrt.SameBytes(got, recs[i]), "damage/records-before-the-damage-unchanged")
		}
		if skip {
			// (not under the contract compressors: their output bytes are free variables, and with free bytes
			// right behind the header a one-byte alteration of a length can be completed to a header whose
			// checksum is right again - ReadNext then fails in the decompressor, SkipNext has nothing left to
			// notice; real gzip/lzw output is not free)
			vrt.Assume(comp == CompressionTypeNone || comp == CompressionTypeSnappy)
			// skipping is reading and discarding (C04): the damaged header must stop it too, otherwise the
			// reader is left at a wrong place and later reads return records out of order
			err = r.SkipNext()
			vrt.Assert(err != nil, "damage/skip-of-damaged-record-fails")
			vrt.Reach("damage/skip")
		} else {
			_, err = r.ReadNext()
			vrt.Assert(err != nil, "damage/sequential-read-of-damaged-record-fails")
			// (which error is not prescribed: on the unchanged tree a length byte altered so that the header runs
			// into the end of the file is reported with an error that wraps io.EOF)
		}
		vrt.TraceBool("seq.err", err != nil)
		r.Close()
	default:
		m, err := NewMemoryMappedReaderWithPath(p)
		vrt.Assert(err == nil && m.Open() == nil, "damage/mmap-open-no-error")
		_, err = m.ReadNextAt(offs[victim])
		vrt.Assert(err != nil, "damage/random-access-read-of-damaged-record-fails")
		vrt.TraceBool("ra.err", err != nil)
		m.Close()
	}
	vrt.Reach("damage/end")
}

// H_C12_FileHeader: Open accepts exactly versions 1..4 with compression codes 0..3 and never panics.
func H_C12_FileHeader() {
	fs := vrt.NewFS()
	defer fs.Cleanup()
	hdr := vrt.BytesN("h", 8)
	version := binary.LittleEndian.Uint32(hdr[0:4])
	ctype := binary.LittleEndian.Uint32(hdr[4:8])
	valid := vrt.And(vrt.And(version >= 1, version <= 4), ctype <= 3)
	p := fs.Path("f.rio")
	fs.WriteFile(p, hdr)

	r, err := NewFileReader(ReaderPath(p), ReaderBufferSizeBytes(16))
	vrt.Assert(err == nil, "fileheader/new-reader-no-error")
	oerr := r.Open()
	vrt.Assert(vrt.Implies(valid, oerr == nil), "fileheader/sequential-open-accepts-supported")
	vrt.Assert(vrt.Implies(oerr == nil, valid), "fileheader/sequential-open-rejects-unsupported")
	if oerr == nil {
		vrt.Reach("fileheader/accepted")
		_, err := r.ReadNext()
		vrt.Assert(errors.Is(err, io.EOF), "fileheader/empty-file-reads-eof")
	} else {
		vrt.Reach("fileheader/rejected")
	}
	r.Close()

	m, err := NewMemoryMappedReaderWithPath(p)
	vrt.Assert(err == nil, "fileheader/new-mmap-no-error")
	merr := m.Open()
	vrt.Assert(vrt.Implies(valid, merr == nil), "fileheader/mmap-open-accepts-supported")
	vrt.Assert(vrt.Implies(merr == nil, valid), "fileheader/mmap-open-rejects-unsupported")
	m.Close()
	vrt.TraceBool("open", oerr == nil)
	vrt.Reach("fileheader/end")
}
