//go:build verif

package recordio

import (
	"os"
	"golang.org/x/exp/mmap"
	"errors"

	"github.com/thomasjungblut/go-sstables/recordio/compressor"
	"github.com/thomasjungblut/go-sstables/vrt"
)

// ---- contract compressor standing in for gzip and lzw under the symbolic engine ----
// Compress(x) = 0xC1, pad length, one arbitrary byte, pad bytes, x. It is non-empty even for empty input and its
// length differs from len(x); the framing overhead is 3, 13 or 93 bytes (forked once per harness run: real gzip adds
// about twenty bytes to a short record, real lzw next to nothing - but grows incompressible input by 40 %), so "compressed form much larger than the
// record" is among the explored cases. Decompress fails on a header it did not write. Natively the real gzip /
// lzw run.

var vErrContract = errors.New("contract compressor: bad header")
var vCompN int
var vCompPad int

func vContractCompress(record []byte, dst []byte) ([]byte, error) {
	vCompN++
	if vCompPad < 0 {
		vCompPad = []int{0, 10, 90}[vrt.Choose("comp.pad", 3)]
	}
	out := append(dst[:0], 0xC1, byte(vCompPad), vrt.Byte(vrt.K("comp.hdr", vCompN)))
	for i := 0; i < vCompPad; i++ {
		out = append(out, 0xC2)
	}
	out = append(out, record...)
	return out, nil
}

func vContractDecompress(buf []byte, dst []byte) ([]byte, error) {
	if len(buf) < 3 || buf[0] != 0xC1 {
		return nil, vErrContract
	}
	n := int(buf[1])
	if n != 0 && n != 10 && n != 90 || len(buf) < 3+n {
		return nil, vErrContract
	}
	return append(dst[:0], buf[3+n:]...), nil
}

func vInstallContractCompressors() {
	if !vrt.Symbolic() {
		return
	}
	vCompN = 0
	vCompPad = -1 // chosen at the first use
	const p = "(*github.com/thomasjungblut/go-sstables/recordio/compressor."
	vrt.Redirect(p+"GzipCompressor).Compress", func(c *compressor.GzipCompressor, r []byte) ([]byte, error) {
		return vContractCompress(r, nil)
	})
	vrt.Redirect(p+"GzipCompressor).CompressWithBuf", func(c *compressor.GzipCompressor, r []byte, d []byte) ([]byte, error) {
		return vContractCompress(r, d)
	})
	vrt.Redirect(p+"GzipCompressor).Decompress", func(c *compressor.GzipCompressor, b []byte) ([]byte, error) {
		return vContractDecompress(b, nil)
	})
	vrt.Redirect(p+"GzipCompressor).DecompressWithBuf", func(c *compressor.GzipCompressor, b []byte, d []byte) ([]byte, error) {
		return vContractDecompress(b, d)
	})
	vrt.Redirect(p+"LzwCompressor).Compress", func(c *compressor.LzwCompressor, r []byte) ([]byte, error) {
		return vContractCompress(r, nil)
	})
	vrt.Redirect(p+"LzwCompressor).CompressWithBuf", func(c *compressor.LzwCompressor, r []byte, d []byte) ([]byte, error) {
		return vContractCompress(r, d)
	})
	vrt.Redirect(p+"LzwCompressor).Decompress", func(c *compressor.LzwCompressor, b []byte) ([]byte, error) {
		return vContractDecompress(b, nil)
	})
	vrt.Redirect(p+"LzwCompressor).DecompressWithBuf", func(c *compressor.LzwCompressor, b []byte, d []byte) ([]byte, error) {
		return vContractDecompress(b, d)
	})
}

var vCompTypes = []int{CompressionTypeNone, CompressionTypeSnappy, CompressionTypeGZIP, CompressionTypeLzw}

func vChooseComp() int {
	c := vCompTypes[vrt.Choose("comp", len(vCompTypes))]
	if c != CompressionTypeNone {
		vrt.Tag("compressed")
	}
	return c
}

// vRecords draws n records: nil | 0..maxLen arbitrary bytes.
func vRecords(nMax, maxLen int) [][]byte {
	n := vrt.Range("n", 0, nMax)
	recs := make([][]byte, n)
	for i := range recs {
		recs[i] = vrt.BytesOrNil(vrt.K("r", i), maxLen)
		if recs[i] == nil {
			vrt.Tag("nil-record")
		}
	}
	return recs
}

// vWriteFile writes recs through the real writer and returns the offsets Write returned.
func vWriteFile(fs *vrt.FS, path string, comp, wbuf int, recs [][]byte) (offs []uint64, size uint64) {
	w, err := NewFileWriter(Path(path), CompressionType(comp), BufferSizeBytes(wbuf))
	vrt.Assert(err == nil, "write/new-writer-no-error")
	vrt.Assert(w.Open() == nil, "write/open-no-error")
	for i := range recs {
		off, err := w.Write(recs[i])
		vrt.Assert(err == nil, "write/write-no-error")
		offs = append(offs, off)
	}
	size = w.Size()
	vrt.Assert(w.Close() == nil, "write/close-no-error")
	return offs, size
}

// vNativeIncompressible (native runs): a record no compressor can shrink (lzw grows it by about 40 %) goes through the
// writer and both readers unchanged, whatever the compression type.
func vNativeIncompressible(fs *vrt.FS, comp int) {
	if vrt.Symbolic() {
		return
	}
	big := make([]byte, 3000)
	x := uint32(2463534242)
	for i := range big {
		x ^= x << 13
		x ^= x >> 17
		x ^= x << 5
		big[i] = byte(x >> 11)
	}
	recs := [][]byte{{1}, big, {2}}
	p := fs.Path("incompressible" + string(rune('a'+comp)) + ".rio")
	offs, _ := vWriteFile(fs, p, comp, 64, recs)
	r, err := NewFileReader(ReaderPath(p), ReaderBufferSizeBytes(64))
	vrt.Assert(err == nil && r.Open() == nil, "incompressible/reader-open-no-error")
	for i := range recs {
		got, err := r.ReadNext()
		vrt.Assert(err == nil && vrt.SameBytes(got, recs[i]), "incompressible/sequential-record-unchanged")
	}
	r.Close()
	m, err := NewMemoryMappedReaderWithPath(p)
	vrt.Assert(err == nil && m.Open() == nil, "incompressible/mmap-open-no-error")
	for i := range recs {
		got, err := m.ReadNextAt(offs[i])
		vrt.Assert(err == nil && vrt.SameBytes(got, recs[i]), "incompressible/random-access-record-unchanged")
	}
	m.Close()
}

func mmapOpenForHarness(p string) (*mmap.ReaderAt, error) { return mmap.Open(p) }

// vTraceU traces an offset/size only where the native run uses the same compressor as the symbolic one
// (gzip and lzw are a contract compressor symbolically, so stored sizes differ from the real ones).
func vTraceU(comp int, k string, v uint64) {
	if comp == CompressionTypeNone || comp == CompressionTypeSnappy {
		vrt.Trace(k, v)
	}
}

// VInstallContractCompressors is the exported entry for harnesses of other packages.
func VInstallContractCompressors() { vInstallContractCompressors() }

// ---- journalled writer: the seam through which crash images are also available natively ----

type vJournalWSC struct {
	f    *os.File
	fs   *vrt.FS
	path string
	pos  int64
}

func (j *vJournalWSC) Write(b []byte) (int, error) {
	n, err := j.f.Write(b)
	if n > 0 {
		j.fs.NoteWrite(j.path, j.pos, b[:n])
		j.pos += int64(n)
	}
	return n, err
}

func (j *vJournalWSC) Seek(off int64, whence int) (int64, error) {
	p, err := j.f.Seek(off, whence)
	if err == nil {
		j.pos = p
	}
	return p, err
}

func (j *vJournalWSC) Close() error { return j.f.Close() }

// VJournaledWriter returns the real FileWriter for path with the given write buffer. Under the symbolic engine
// the model file system journals every call by itself; natively the writes are reported to fs by a pass-through
// wrapper below the real buffered writer.
func VJournaledWriter(fs *vrt.FS, path string, comp, bufSize int) (WriterI, error) {
	if vrt.Symbolic() {
		return NewFileWriter(Path(path), CompressionType(comp), BufferSizeBytes(bufSize))
	}
	f, err := os.OpenFile(path, os.O_WRONLY|os.O_CREATE, 0666)
	if err != nil {
		return nil, err
	}
	fs.NoteCreate(path)
	return &FileWriter{file: f, bufWriter: NewWriterBuf(&vJournalWSC{f: f, fs: fs, path: path}, make([]byte, bufSize)),
		compressionType: comp}, nil
}
