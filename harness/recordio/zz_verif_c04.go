//go:build verif

package recordio

import (
	"errors"
	"io"
	"os"

	"github.com/thomasjungblut/go-sstables/vrt"
)

// H_C04_RoundTrip: writer → sequential reader and random-access reader; offsets; Size; nil vs empty.
func H_C04_RoundTrip() {
	fs := vrt.NewFS()
	defer fs.Cleanup()
	vInstallContractCompressors()
	comp := vChooseComp()
	nMax, lMax, bMax := 2, 3, 9
	if vrt.Thorough() {
		nMax, lMax, bMax = 3, 3, 12
	}
	recs := vRecords(nMax, lMax)
	wbuf := vrt.Range("wbuf", 1, bMax)
	rbuf := vrt.Range("rbuf", 1, bMax)
	// direct-I/O style zero padded tail (C04: "zero padded tail of block-aligned files is end-of-file")
	pad := vrt.Range("pad", 0, 2) * 3
	p := fs.Path("f.rio")
	offs, size := vWriteFile(fs, p, comp, wbuf, recs)

	file := fs.ReadFile(p)
	vrt.Assert(uint64(len(file)) == size, "roundtrip/size-is-file-length")
	for i := range offs {
		if i == 0 {
			vrt.Assert(offs[0] == FileHeaderSizeBytes, "roundtrip/first-offset-after-file-header")
		} else {
			vrt.Assert(offs[i] > offs[i-1], "roundtrip/offsets-ascend")
		}
		vrt.Assert(offs[i] < size, "roundtrip/offset-inside-file")
		vTraceU(comp, vrt.K("off", i), offs[i])
	}
	vTraceU(comp, "size", size)
	if pad > 0 {
		fs.WriteFile(p, append(file, make([]byte, pad)...))
		vrt.Reach("roundtrip/zero-padded-tail")
	}

	r, err := NewFileReader(ReaderPath(p), ReaderBufferSizeBytes(rbuf))
	vrt.Assert(err == nil, "roundtrip/new-reader-no-error")
	vrt.Assert(r.Open() == nil, "roundtrip/reader-open-no-error")
	var seq [][]byte
	for i := range recs {
		got, err := r.ReadNext()
		vrt.Assert(err == nil, "roundtrip/sequential-read-no-error")
		vrt.Assert(vrt.SameBytes(got, recs[i]), "roundtrip/sequential-record-unchanged")
		seq = append(seq, got)
	}
	_, err = r.ReadNext()
	vrt.Assert(errors.Is(err, io.EOF), "roundtrip/sequential-then-eof")
	// a returned record stays what it was when later records are read (no reuse of its memory)
	for i := range seq {
		vrt.Assert(vrt.SameBytes(seq[i], recs[i]), "roundtrip/earlier-results-not-overwritten-by-later-reads")
	}
	vrt.Assert(r.Close() == nil, "roundtrip/reader-close-no-error")

	m, err := NewMemoryMappedReaderWithPath(p)
	vrt.Assert(err == nil, "roundtrip/new-mmap-no-error")
	vrt.Assert(m.Open() == nil, "roundtrip/mmap-open-no-error")
	vrt.Assert(m.Size() == size+uint64(pad), "roundtrip/mmap-size")
	ra := make([][]byte, len(recs))
	for i := len(recs) - 1; i >= 0; i-- {
		got, err := m.ReadNextAt(offs[i])
		vrt.Assert(err == nil, "roundtrip/random-access-no-error")
		vrt.Assert(vrt.SameBytes(got, recs[i]), "roundtrip/random-access-record-unchanged")
		ra[i] = got
	}
	for i := range ra {
		vrt.Assert(vrt.SameBytes(ra[i], recs[i]), "roundtrip/earlier-results-not-overwritten-by-later-reads")
	}
	vrt.Assert(m.Close() == nil, "roundtrip/mmap-close-no-error")
	vrt.Assert(!vrt.Symbolic() || (fs.OpenHandles == 0 && fs.OpenMaps == 0), "roundtrip/everything-closed")
	// (natively, with every real compressor: the stand-in of the engine is one compressor for gzip and lzw)
	for _, c := range []int{CompressionTypeNone, CompressionTypeSnappy, CompressionTypeGZIP, CompressionTypeLzw} {
		vNativeIncompressible(fs, c)
	}
	vrt.Reach("roundtrip/end")
}

// H_C04_WriterSeek: writer programs of Write / WriteSync / Seek (back to a record boundary) / Close.
func H_C04_WriterSeek() {
	fs := vrt.NewFS()
	defer fs.Cleanup()
	vInstallContractCompressors()
	comp := vChooseComp()
	steps := 3
	if vrt.Thorough() {
		steps = 4
	}
	wbuf := []int{1, 3, 8}[vrt.Choose("wbuf", 3)]
	p := fs.Path("f.rio")
	w, err := NewFileWriter(Path(p), CompressionType(comp), BufferSizeBytes(wbuf))
	vrt.Assert(err == nil, "seek/new-writer-no-error")
	vrt.Assert(w.Open() == nil, "seek/open-no-error")

	var offs []uint64 // surviving records
	var recs [][]byte
	nSteps := vrt.Range("steps", 1, steps)
	nr := 0
	for s := 0; s < nSteps; s++ {
		op := vrt.Choose(vrt.K("op", s), 3)
		switch op {
		case 0, 1:
			rec := vrt.BytesOrNil(vrt.K("r", nr), 1)
			nr++
			var off uint64
			var err error
			if op == 1 {
				off, err = w.WriteSync(rec)
			} else {
				off, err = w.Write(rec)
			}
			vrt.Assert(err == nil, "seek/write-no-error")
			vrt.Assert(off >= FileHeaderSizeBytes, "seek/offset-after-header")
			if len(offs) > 0 {
				vrt.Assert(off > offs[len(offs)-1], "seek/offsets-ascend")
			}
			offs = append(offs, off)
			recs = append(recs, rec)
		case 2:
			// seek to: a surviving record boundary | current end | into the header (rejected) | past the end (rejected)
			t := vrt.Choose(vrt.K("seekto", s), len(offs)+3)
			switch {
			case t < len(offs):
				vrt.Assert(w.Seek(offs[t]) == nil, "seek/seek-to-record-boundary-no-error")
				offs = offs[:t]
				recs = recs[:t]
				vrt.Reach("seek/seek-back")
			case t == len(offs):
				vrt.Assert(w.Seek(w.Size()) == nil, "seek/seek-to-end-no-error")
			case t == len(offs)+1:
				vrt.Assert(w.Seek(FileHeaderSizeBytes-1) != nil, "seek/seek-into-header-rejected")
			default:
				vrt.Assert(w.Seek(w.Size()+1) != nil, "seek/seek-past-end-rejected")
			}
		}
	}
	size := w.Size()
	vrt.Assert(w.Close() == nil, "seek/close-no-error")
	file := fs.ReadFile(p)
	vrt.Assert(uint64(len(file)) == size, "seek/file-length-is-end-of-last-surviving-record")
	vTraceU(comp, "size", size)

	r, err := NewFileReader(ReaderPath(p), ReaderBufferSizeBytes(5))
	vrt.Assert(err == nil, "seek/new-reader-no-error")
	vrt.Assert(r.Open() == nil, "seek/reader-open-no-error")
	for i := range recs {
		got, err := r.ReadNext()
		vrt.Assert(err == nil, "seek/sequential-read-no-error")
		vrt.Assert(vrt.SameBytes(got, recs[i]), "seek/sequential-yields-surviving-records")
	}
	_, err = r.ReadNext()
	vrt.Assert(errors.Is(err, io.EOF), "seek/sequential-then-eof")
	r.Close()

	m, err := NewMemoryMappedReaderWithPath(p)
	vrt.Assert(err == nil && m.Open() == nil, "seek/mmap-open-no-error")
	for i := range recs {
		got, err := m.ReadNextAt(offs[i])
		vrt.Assert(err == nil, "seek/random-access-no-error")
		vrt.Assert(vrt.SameBytes(got, recs[i]), "seek/random-access-record-unchanged")
	}
	m.Close()
	vrt.Reach("seek/end")
}

// H_C04_Skip: any mix of ReadNext and SkipNext; skipping = reading and discarding.
func H_C04_Skip() {
	fs := vrt.NewFS()
	defer fs.Cleanup()
	vInstallContractCompressors()
	comp := vChooseComp()
	recs := vRecords(3, 2)
	p := fs.Path("f.rio")
	vWriteFile(fs, p, comp, 64, recs)
	rbuf := []int{1, 4, 64}[vrt.Choose("rbuf", 3)]
	r, err := NewFileReader(ReaderPath(p), ReaderBufferSizeBytes(rbuf))
	vrt.Assert(err == nil, "skip/new-reader-no-error")
	vrt.Assert(r.Open() == nil, "skip/reader-open-no-error")
	for i := range recs {
		if vrt.Choose(vrt.K("skip", i), 2) == 1 {
			vrt.Reach("skip/skipped")
			vrt.Assert(r.SkipNext() == nil, "skip/skip-no-error")
		} else {
			got, err := r.ReadNext()
			vrt.Assert(err == nil, "skip/read-after-any-mix-no-error")
			vrt.Assert(vrt.SameBytes(got, recs[i]), "skip/read-after-any-mix-yields-that-record")
		}
	}
	if vrt.Choose("lastop", 2) == 1 {
		vrt.Assert(r.SkipNext() != nil, "skip/skip-at-end-is-error")
	} else {
		_, err = r.ReadNext()
		vrt.Assert(errors.Is(err, io.EOF), "skip/read-at-end-is-eof")
	}
	r.Close()
	vrt.Reach("skip/end")
}

// H_C04_SeekNext: from any byte offset, SeekNext returns the first record starting at or after it.
func H_C04_SeekNext() {
	fs := vrt.NewFS()
	defer fs.Cleanup()
	vInstallContractCompressors()
	comp := vChooseComp()
	recs := vRecords(2, 3)
	p := fs.Path("f.rio")
	offs, size := vWriteFile(fs, p, comp, 64, recs)
	win := vrt.Range("window", 4, 7)
	mm, err := mmapOpenForHarness(p)
	vrt.Assert(err == nil, "seeknext/mmap-open-no-error")
	m := &MMapReader{mmapReader: mm, path: p, seekLen: win}
	vrt.Assert(m.Open() == nil, "seeknext/open-no-error")
	// (under the stand-in for gzip and lzw the file is not as long as the natively written one)
	off := uint64(vrt.RangeClamp("offset", 0, int(size)+1))

	want := -1
	for i := range offs {
		if offs[i] >= off {
			want = i
			break
		}
	}
	gotOff, got, err := m.SeekNext(off)
	if want < 0 {
		vrt.Reach("seeknext/none-left")
		vrt.Assert(err != nil, "seeknext/none-left-is-error")
	} else {
		if offs[want] > off {
			vrt.Reach("seeknext/offset-inside-previous-bytes")
		}
		vrt.Assert(err == nil, "seeknext/finds-next-record")
		vrt.Assert(gotOff == offs[want], "seeknext/offset-of-next-record")
		vrt.Assert(vrt.SameBytes(got, recs[want]), "seeknext/payload-of-next-record")
	}
	if comp == CompressionTypeNone || comp == CompressionTypeSnappy {
		vrt.TraceBool("err", err != nil)
	} else {
		vrt.TraceBool("err", false) // offsets mean something else in the natively compressed file
	}
	vTraceU(comp, "gotOff", gotOff)
	m.Close()
	vrt.Reach("seeknext/end")
}

// vAlignedWriter is the direct-I/O writer without O_DIRECT: the same FileWriter in block-aligned mode over the
// same block-aligned buffered writer the DirectIOFactory returns, on a plain file and with a block of a few bytes
// instead of 4096 (the model file system has no alignment requirement, and neither has a plain native file).
// What direct I/O adds - the kernel refusing misaligned buffers - is outside; the block logic is what is checked.
func vAlignedWriter(path string, comp, block int) (WriterI, error) {
	f, err := os.OpenFile(path, os.O_WRONLY|os.O_CREATE, 0666)
	if err != nil {
		return nil, err
	}
	return newCompressedFileWriterWithFile(f, NewAlignedWriterBuf(f, make([]byte, block)), comp, true)
}

// H_C04_Aligned: block-aligned (direct-I/O style) writer → both readers. Everything after the last record is zero, the sequential reader ends with end-of-file after the written
// records, the random-access reader finds each record at its offset.
func H_C04_Aligned() {
	fs := vrt.NewFS()
	defer fs.Cleanup()
	comp := []int{CompressionTypeNone, CompressionTypeSnappy}[vrt.Choose("comp", 2)]
	nMax := 3
	if vrt.Thorough() {
		nMax = 4
	}
	recs := vRecords(nMax, 3)
	block := []int{8, 12, 16, 32}[vrt.Choose("block", 4)]
	rbuf := []int{5, 16}[vrt.Choose("rbuf", 2)]
	p := fs.Path("f.rio")
	w, err := vAlignedWriter(p, comp, block)
	vrt.Assert(err == nil, "aligned/new-writer-no-error")
	vrt.Assert(w.Open() == nil, "aligned/open-no-error")
	var offs []uint64
	for i := range recs {
		off, err := w.Write(recs[i])
		vrt.Assert(err == nil, "aligned/write-no-error")
		offs = append(offs, off)
	}
	_, serr := w.WriteSync([]byte{1})
	vrt.Assert(errors.Is(serr, DirectIOSyncWriteErr), "aligned/sync-write-rejected")
	size := w.Size()
	vrt.Assert(w.Close() == nil, "aligned/close-no-error")

	file := fs.ReadFile(p)
	// (the file is not always a whole number of blocks: a single write larger than the buffer goes to the file
	// directly, unpadded - whether a direct-I/O file accepts that is the kernel's business and outside the claim)
	vrt.Assert(uint64(len(file)) >= size && uint64(len(file)) < size+uint64(block), "aligned/file-ends-within-a-block-after-the-last-record")
	if uint64(len(file)) > uint64(block) {
		vrt.Reach("aligned/more-than-one-block")
	}
	zero := true
	for i := int(size); i < len(file); i++ {
		zero = vrt.And(zero, file[i] == 0)
	}
	vrt.Assert(zero, "aligned/tail-after-last-record-is-zero")
	vrt.Trace("size", size)
	vrt.Trace("len", uint64(len(file)))

	r, err := NewFileReader(ReaderPath(p), ReaderBufferSizeBytes(rbuf))
	vrt.Assert(err == nil, "aligned/new-reader-no-error")
	vrt.Assert(r.Open() == nil, "aligned/reader-open-no-error")
	for i := range recs {
		got, err := r.ReadNext()
		vrt.Assert(err == nil, "aligned/sequential-read-no-error")
		vrt.Assert(vrt.SameBytes(got, recs[i]), "aligned/sequential-record-unchanged")
	}
	_, err = r.ReadNext()
	vrt.Assert(errors.Is(err, io.EOF), "aligned/sequential-then-eof")
	vrt.Assert(r.Close() == nil, "aligned/reader-close-no-error")

	m, err := NewMemoryMappedReaderWithPath(p)
	vrt.Assert(err == nil, "aligned/new-mmap-no-error")
	vrt.Assert(m.Open() == nil, "aligned/mmap-open-no-error")
	for i := len(recs) - 1; i >= 0; i-- {
		got, err := m.ReadNextAt(offs[i])
		vrt.Assert(err == nil, "aligned/random-access-no-error")
		vrt.Assert(vrt.SameBytes(got, recs[i]), "aligned/random-access-record-unchanged")
	}
	vrt.Assert(m.Close() == nil, "aligned/mmap-close-no-error")
	vrt.Reach("aligned/end")
}

// H_C04_Large: a record larger than every pool bucket and buffer (one byte more than 512 KiB, and 512 KiB exactly)
// between two small ones.
func H_C04_Large() {
	fs := vrt.NewFS()
	defer fs.Cleanup()
	comp := []int{CompressionTypeNone, CompressionTypeSnappy}[vrt.Choose("comp", 2)]
	size := (1 << 19) + vrt.Choose("over", 2)
	big := make([]byte, size)
	big[0], big[size/2], big[size-1] = 1, vrt.Byte("mid"), 2
	recs := [][]byte{{vrt.Byte("first")}, big, {vrt.Byte("last")}}
	p := fs.Path("f.rio")
	offs, fsize := vWriteFile(fs, p, comp, 4096, recs)
	vrt.Assert(fsize > uint64(size) || comp != CompressionTypeNone, "large/file-holds-the-record")

	r, err := NewFileReader(ReaderPath(p), ReaderBufferSizeBytes(4096))
	vrt.Assert(err == nil && r.Open() == nil, "large/reader-open-no-error")
	var seq [][]byte
	for i := range recs {
		got, err := r.ReadNext()
		vrt.Assert(err == nil, "large/sequential-read-no-error")
		vrt.Assert(vrt.SameBytes(got, recs[i]), "large/sequential-record-unchanged")
		seq = append(seq, got)
	}
	_, err = r.ReadNext()
	vrt.Assert(errors.Is(err, io.EOF), "large/sequential-then-eof")
	vrt.Assert(r.Close() == nil, "large/reader-close-no-error")
	for i := range seq {
		vrt.Assert(vrt.SameBytes(seq[i], recs[i]), "large/results-still-intact-after-close")
	}

	m, err := NewMemoryMappedReaderWithPath(p)
	vrt.Assert(err == nil && m.Open() == nil, "large/mmap-open-no-error")
	for i := len(recs) - 1; i >= 0; i-- {
		got, err := m.ReadNextAt(offs[i])
		vrt.Assert(err == nil, "large/random-access-no-error")
		vrt.Assert(vrt.SameBytes(got, recs[i]), "large/random-access-record-unchanged")
	}
	vrt.Assert(m.Close() == nil, "large/mmap-close-no-error")
	vrt.TraceBool("done", true)
	vrt.Reach("large/end")
}

// H_C04_SeekFakeMarker: the marker bytes inside a payload, followed by bytes that do not parse as a record header
// in one way or another (a flag byte and a run of 0xff: length varints that overflow or point far beyond the file),
// must not stop SeekNext from finding the next real record.
func H_C04_SeekFakeMarker() {
	fs := vrt.NewFS()
	defer fs.Cleanup()
	payload := []byte{0x91, 0x8d, 0x4c, vrt.Byte("flag")}
	if vrt.Choose("shape", 2) == 0 {
		k := vrt.Range("ff", 0, 12)
		for i := 0; i < k; i++ {
			payload = append(payload, 0xff)
		}
	} else {
		// a complete header-like run with one-byte lengths whose checksum field is zero (no header of this shape
		// has the checksum zero: the solver decides that over all flag and length bytes)
		u, c := vrt.Byte("usize"), vrt.Byte("csize")
		vrt.Assume(u < 128 && c < 128)
		payload = append(payload, u, c, 0)
		vrt.Tag("zero-checksum-field")
	}
	payload = append(payload, vrt.Byte("tail"))
	recs := [][]byte{payload, {vrt.Byte("second")}}
	p := fs.Path("f.rio")
	offs, size := vWriteFile(fs, p, CompressionTypeNone, 64, recs)
	win := []int{4, 7, 64}[vrt.Choose("window", 3)]
	mm, err := mmapOpenForHarness(p)
	vrt.Assert(err == nil, "fakemarker/mmap-open-no-error")
	m := &MMapReader{mmapReader: mm, path: p, seekLen: win}
	vrt.Assert(m.Open() == nil, "fakemarker/open-no-error")
	// every offset behind the start of the first record up to the start of the second one
	off := uint64(vrt.Range("offset", int(offs[0])+1, int(offs[1])))
	_ = size
	gotOff, got, err := m.SeekNext(off)
	vrt.Assert(err == nil, "fakemarker/finds-next-record")
	vrt.Assert(gotOff == offs[1], "fakemarker/offset-of-next-record")
	vrt.Assert(vrt.SameBytes(got, recs[1]), "fakemarker/payload-of-next-record")
	vrt.TraceBool("err", err != nil)
	m.Close()
	vrt.Reach("fakemarker/end")
}
