//go:build verif

package simpledb

import (
	"math"

	"github.com/thomasjungblut/go-sstables/vrt"
)

// H_C10_Recovery: Open (recovery) is killed at any system-call boundary, possibly twice in a row; a later Open
// succeeds and yields the state the uninterrupted recovery would have produced.
func H_C10_Recovery() {
	vrt.RandPromoteBudget(0)
	// os.RemoveAll (used by the recovery to clear the WAL directory) removes entries in the order the file
	// system lists them, which is not specified: both directions are explored (natively: a tmpfs directory
	// lists newest first, the default temporary directory usually does not)
	kind := vrt.Choose("image", 5)
	listing := 0
	if kind == 3 || vrt.Thorough() {
		// (quick tier: only for the image with two WAL files, where the order is known to matter)
		listing = vrt.Choose("listing", 2)
	}
	vrt.ListNewestFirst(listing == 1)
	defer vrt.ListNewestFirst(false)
	h := vNewDBEnvU(vUniverse[:1])
	defer h.fs.Cleanup()
	key := vUniverse[0]
	vrt.Assert(h.open(vCrashOpts(false)...) == nil, "recovery/open-no-error")
	s := &vSession{h: h}

	// the directory image recovery starts from
	if vrt.Symbolic() {
		h.fs.WalkReverse = listing == 1
	}
	switch kind {
	case 3:
		// two WAL files: a rotation whose flush had not happened when the process was killed, and newer
		// writes in the next file
		vrt.Tag("image-two-wal-files")
		h.enableGate()
		s.put(key)
		h.db.rwLock.Lock()
		err := h.db.rotateWalAndFlushMemstore()
		h.db.rwLock.Unlock()
		vrt.Assert(err == nil, "recovery/rotation-for-the-image-no-error")
		if vrt.Choose("second", 2) == 1 {
			s.put(key)
		} else {
			s.del(key)
		}
	case 0:
		// unflushed writes in the WAL next to an older table: recovery replays the WAL into a new table
		vrt.Tag("image-wal-replay")
		s.put(key)
		h.forceRotation()
		if vrt.Choose("second", 2) == 1 {
			s.put(key)
		} else {
			s.del(key)
		}
	case 1, 2, 4:
		// a finished, flagged compaction that was not (or only partly) reflected
		switch kind {
		case 1:
			vrt.Tag("image-compaction-flagged")
		case 2:
			vrt.Tag("image-compaction-half-reflected")
		case 4:
			// ... whose oldest input is itself the result of an earlier, completed compaction (it still carries
			// that compaction's success flag inside its folder)
			vrt.Tag("image-second-compaction-flagged")
			s.put(key)
			h.forceRotation()
			s.put(key)
			h.forceRotation()
			h.db.compactedMaxSizeBytes = math.MaxUint64
			h.db.compactionFileThreshold = 1
			h.runPendingNative()
			h.compactionCycle()
			vrt.Assert(h.cycles == 1, "recovery/first-compaction-for-the-image-ran")
		}
		nT := 2
		if kind == 4 {
			nT = 1
		}
		if vrt.Thorough() && kind != 4 {
			nT = vrt.Range("tables", 2, 3)
		}
		for t := 0; t < nT; t++ {
			if vrt.Choose(vrt.K("t", t), 2) == 0 {
				s.put(key)
			} else {
				s.del(key)
			}
			h.forceRotation()
		}
		h.db.compactedMaxSizeBytes = math.MaxUint64
		h.db.compactionFileThreshold = 1
		h.runPendingNative()
		meta, err := executeCompaction(h.db)
		vrt.Assert(err == nil && meta != nil, "recovery/compaction-for-the-image-ran")
		if kind == 2 {
			base := h.fs.Base()
			h.fs.TraceStart()
			vrt.Assert(h.db.sstableManager.reflectCompactionResult(meta) == nil, "recovery/reflect-no-error")
			h.fs.TraceStop()
			// kill inside the reflection: one forked point natively too (the nested points below are exhaustive)
			k0 := vrt.Range("crash0", 0, len(h.fs.Journal))
			img := h.fs.Image(k0, base, nil)
			h = &vDB{fs: img, dir: h.fs.Rebase(img, h.dir), ref: h.ref}
		}
	}
	for i := range s.acks {
		s.acks[i].started, s.acks[i].acked = "", ""
	}
	if kind != 2 && !vrt.Symbolic() {
		// natively: work on a copy so that the still running first instance does not interfere
		h.runPendingNative()
		img := h.fs.CopyTree()
		h = &vDB{fs: img, dir: h.fs.Rebase(img, h.dir), ref: h.ref}
	}

	// first recovery attempt, killed at k1
	base1 := h.fs.Base()
	h.fs.TraceStart()
	r1 := &vDB{fs: h.fs, dir: h.dir, ref: h.ref}
	vrt.Assert(r1.open(vCrashOpts(false)...) == nil, "recovery/uninterrupted-recovery-succeeds")
	vExpectAfterCrash("recovery/uninterrupted", h.fs, r1, vUniverse[:1], s.acks, 0, true)
	r1.runPendingNative()
	h.fs.TraceStop()
	if !vrt.Symbolic() {
		r1.db.Close()
	}
	for _, k1 := range h.fs.CrashPoints("crash1") {
		img1 := h.fs.Image(k1, base1, nil)
		a2 := &vDB{fs: img1, dir: h.fs.Rebase(img1, h.dir), ref: h.ref}
		depth2 := vrt.Symbolic() && vrt.Choose("depth2", 2) == 1
		if !vrt.Symbolic() {
			depth2 = k1%3 == 1 // natively every third first-level point is also nested
		}
		if kind == 3 && !vrt.Thorough() {
			depth2 = false // quick tier: the two-WAL-files image with a single interruption
		}
		if !depth2 {
			oerr := a2.open(vCrashOpts(false)...)
			if oerr != nil {
				vrt.Note(vrt.K("recovery killed after call", k1) + ": second open: " + oerr.Error())
			}
			vrt.Assert(oerr == nil, "recovery/open-after-interrupted-recovery-succeeds")
			if oerr == nil {
				vExpectAfterCrash("recovery/after-one-interruption", h.fs, a2, vUniverse[:1], s.acks, 0, true)
				if !vrt.Symbolic() {
					a2.db.Close()
				}
			}
		} else {
			// second attempt, killed at k2, then a third attempt that runs to the end
			vrt.Reach("recovery/nested-kill")
			base2 := img1.Base()
			img1.TraceStart()
			oerr := a2.open(vCrashOpts(false)...)
			a2.runPendingNative()
			img1.TraceStop()
			if oerr == nil && !vrt.Symbolic() {
				a2.db.Close()
			}
			for _, k2 := range img1.CrashPoints("crash2") {
				img2 := img1.Image(k2, base2, nil)
				a3 := &vDB{fs: img2, dir: img1.Rebase(img2, a2.dir), ref: h.ref}
				oerr := a3.open(vCrashOpts(false)...)
				if oerr != nil {
					vrt.Note(vrt.K("recovery killed after call", k1, "then", k2) + ": third open: " + oerr.Error())
				}
				vrt.Assert(oerr == nil, "recovery/open-after-two-interrupted-recoveries-succeeds")
				if oerr == nil {
					vExpectAfterCrash("recovery/after-two-interruptions", img1, a3, vUniverse[:1], s.acks, 0, true)
					if !vrt.Symbolic() {
						a3.db.Close()
					}
				}
				img2.Cleanup()
			}
		}
		img1.Cleanup()
	}
	vrt.TraceBool("done", true)
	vrt.Reach("recovery/end")
}
