//go:build verif

package simpledb

import (
	"github.com/thomasjungblut/go-sstables/vrt"
)

// vSessionOpts draws the options of one session. The memstore limit is compared with a float estimate
// (havoc'd by the engine: any outcome), so every placement of rotations is explored whatever the limit is.
func vSessionOpts(s int) []ExtraOption {
	return []ExtraOption{
		MemstoreSizeBytes(vrt.U64(vrt.K("opt", s, "memstore"))),
		CompactionFileThreshold(vrt.Range(vrt.K("opt", s, "threshold"), 0, 1)),
		CompactionRatio(0.2),
		WriteBufferSizeBytes(64),
		ReadBufferSizeBytes(64),
	}
}

// H_C01_Map: any program of Put / Delete / Get / compaction cycle / Close+Open reads like a map.
func H_C01_Map() {
	vrt.RandPromoteBudget(0)
	h := vNewDBEnv()
	defer h.fs.Cleanup()
	session := 0
	vrt.Assert(h.open(vSessionOpts(session)...) == nil, "db/open-no-error")
	steps := 3
	if vrt.Thorough() {
		steps = 4
	}
	nv := 0
	for s := 0; s < steps; s++ {
		switch vrt.Choose(vrt.K("op", s), 5) {
		case 0:
			k := vUniverse[vrt.Choose(vrt.K("key", s), len(vUniverse))]
			nv++
			h.put(k, []byte{vrt.Byte(vrt.K("v", nv))})
		case 1:
			k := vUniverse[vrt.Choose(vrt.K("key", s), len(vUniverse))]
			h.del(k)
		case 2:
			h.db.compactedMaxSizeBytes = h.chooseMaxSize(vrt.K("maxsize", s))
			h.compactionCycle()
		case 3:
			h.close()
			session++
			vrt.Assert(h.open(vSessionOpts(session)...) == nil, "db/reopen-no-error")
			vrt.Reach("db/reopened")
		case 4:
			// stop early
			s = steps
		}
		h.maybeFlush()
		h.checkReads("db/reads")
	}
	h.close()
	session++
	vrt.Assert(h.open(vSessionOpts(session)...) == nil, "db/final-reopen-no-error")
	h.checkReads("db/reads-after-final-reopen")
	vrt.TraceBool("done", true)
	h.close()
	vrt.Reach("db/end")
}

// H_C01_ManyGenerations: more than ten tables (directory names with a different number of significant digits),
// a compaction that leaves holes in the numbering, restarts in between: the newest value still wins.
func H_C01_ManyGenerations() {
	vrt.RandPromoteBudget(0)
	h := vNewDBEnvU(vUniverse[:1])
	defer h.fs.Cleanup()
	key := vUniverse[0]
	opts := []ExtraOption{MemstoreSizeBytes(1 << 40), WriteBufferSizeBytes(64), ReadBufferSizeBytes(64)}
	vrt.Assert(h.open(opts...) == nil, "gens/open-no-error")
	n := 11
	restartAt := vrt.Range("restart", 2, 10)
	compactAt := vrt.Range("compact", 3, 11)
	for i := 1; i <= n; i++ {
		if i%4 == 3 {
			h.del(key)
		} else {
			h.put(key, []byte{vrt.Byte(vrt.K("v", i))})
		}
		h.forceRotation()
		if i == compactAt {
			// one real compaction cycle over everything written so far: the numbering gets holes
			h.db.compactionFileThreshold = 1
			h.db.compactedMaxSizeBytes = 1 << 40
			h.compactionCycle()
		}
		if i == restartAt {
			h.close()
			vrt.Assert(h.open(opts...) == nil, "gens/reopen-no-error")
		}
		h.checkReads("gens/reads")
	}
	h.close()
	vrt.Assert(h.open(opts...) == nil, "gens/final-reopen-no-error")
	h.checkReads("gens/reads-after-final-reopen")
	h.close()
	vrt.TraceBool("done", true)
	vrt.Reach("gens/end")
}
