//go:build verif

package simpledb

import (
	"github.com/thomasjungblut/go-sstables/vrt"
)

// vSessionOpts draws the options of one session. The memstore limit is compared with a float estimate
// (havoc'd by the engine: any outcome), so every placement of rotations is explored whatever the limit is.
func vSessionOpts(s int) []ExtraOption {
	return []ExtraOption{
		MemstoreSizeBytes(vrt.U64(vrt.K("opt", s, "memstore"))),
		CompactionFileThreshold(vrt.Range(vrt.K("opt", s, "threshold"), 0, 1)),
		CompactionMaxSizeBytes(vrt.U64(vrt.K("opt", s, "maxsize"))),
		CompactionRatio(0.2),
		WriteBufferSizeBytes(64),
		ReadBufferSizeBytes(64),
	}
}

// H_C01_Map: any program of Put / Delete / Get / compaction cycle / Close+Open reads like a map.
func H_C01_Map() {
	vrt.RandPromoteBudget(0)
	h := vNewDBEnv()
	defer h.fs.Cleanup()
	session := 0
	vrt.Assert(h.open(vSessionOpts(session)...) == nil, "db/open-no-error")
	steps := 3
	if vrt.Thorough() {
		steps = 4
	}
	nv := 0
	for s := 0; s < steps; s++ {
		switch vrt.Choose(vrt.K("op", s), 5) {
		case 0:
			k := vUniverse[vrt.Choose(vrt.K("key", s), len(vUniverse))]
			nv++
			h.put(k, []byte{vrt.Byte(vrt.K("v", nv))})
		case 1:
			k := vUniverse[vrt.Choose(vrt.K("key", s), len(vUniverse))]
			h.del(k)
		case 2:
			h.compactionCycle()
		case 3:
			h.close()
			session++
			vrt.Assert(h.open(vSessionOpts(session)...) == nil, "db/reopen-no-error")
			vrt.Reach("db/reopened")
		case 4:
			// stop early
			s = steps
		}
		h.maybeFlush()
		h.checkReads("db/reads")
	}
	h.close()
	session++
	vrt.Assert(h.open(vSessionOpts(session)...) == nil, "db/final-reopen-no-error")
	h.checkReads("db/reads-after-final-reopen")
	vrt.TraceBool("done", true)
	h.close()
	vrt.Reach("db/end")
}
