//go:build verif

package simpledb

import (
	dbproto "github.com/thomasjungblut/go-sstables/simpledb/proto"
	"math"
	"runtime"
	"strings"
	"time"

	"github.com/thomasjungblut/go-sstables/vrt"
)

func vGoroutinesOf(fn string) int {
	if vrt.Symbolic() {
		return 0
	}
	buf := make([]byte, 1<<20)
	n := runtime.Stack(buf, true)
	c := 0
	for _, g := range strings.Split(string(buf[:n]), "\n\n") {
		if strings.Contains(g, fn) {
			c++
		}
	}
	return c
}

// H_C19_DB: while the database is open the number of descriptors and mappings under its directory is bounded by
// the number of live tables plus a constant, whatever flush / compaction / reopen cycles happened; after Close
// none remain and the background goroutines have ended.
func H_C19_DB() {
	vrt.RandPromoteBudget(0)
	h := vNewDBEnvU(vUniverse[:1])
	defer h.fs.Cleanup()
	key := vUniverse[0]
	// with the compactor goroutine started by Open (its ticker never fires inside the run: interval one hour;
	// compaction cycles are driven by the harness) or without
	h.withCompactor = vrt.Choose("compactor", 2) == 1
	vrt.Assert(h.open(MemstoreSizeBytes(math.MaxUint64), WriteBufferSizeBytes(64), ReadBufferSizeBytes(64), CompactionRunInterval(time.Hour)) == nil, "handles/open-no-error")
	steps := 5
	if vrt.Thorough() {
		steps = 6
	}
	nv := 0
	n := vrt.Range("steps", 1, steps)
	for i := 0; i < n; i++ {
		switch vrt.Choose(vrt.K("op", i), 5) {
		case 0:
			nv++
			h.put(key, []byte{vrt.Byte(vrt.K("v", nv))})
		case 1:
			h.del(key)
		case 2:
			h.forceRotation()
		case 3:
			h.db.compactedMaxSizeBytes = math.MaxUint64
			h.db.compactionFileThreshold = 1
			h.compactionCycle()
		case 4:
			h.close()
			vrt.Assert(h.fs.OpenCount() == 0, "handles/none-left-after-close")
			vrt.Assert(vGoroutinesOf("simpledb.flushMemstoreContinuously") == 0, "handles/flusher-goroutine-ended-after-close")
			vrt.Assert(vGoroutinesOf("simpledb.backgroundCompaction") == 0, "handles/compactor-goroutine-ended-after-close")
			vrt.Assert(h.open(MemstoreSizeBytes(math.MaxUint64), WriteBufferSizeBytes(64), ReadBufferSizeBytes(64), CompactionRunInterval(time.Hour)) == nil, "handles/reopen-no-error")
			vrt.Reach("handles/reopened")
		}
		h.runPendingNative()
		// one mapping per live table (the data file), one descriptor for the current WAL file
		open := h.fs.OpenCount()
		vrt.Assert(open <= h.tables()+1, "handles/bounded-by-live-tables-plus-constant")
		vrt.Trace(vrt.K("open", i), uint64(open))
	}
	// a get goes through every layer without leaving anything open
	_, _ = h.db.GetBytes(key)
	vrt.Assert(h.fs.OpenCount() <= h.tables()+1, "handles/reads-leave-nothing-open")
	h.close()
	vrt.Assert(h.fs.OpenCount() == 0, "handles/none-left-after-final-close")
	vrt.Assert(vrt.Symbolic() || vGoroutinesOf("simpledb.flushMemstoreContinuously")+vGoroutinesOf("simpledb.backgroundCompaction") == 0, "handles/background-goroutines-ended")
	vrt.Assert(!vrt.Symbolic() || h.flusherExited, "handles/close-joins-the-flusher")
	vrt.Assert(!vrt.Symbolic() || !h.withCompactor || h.compactorExited, "handles/close-joins-the-compactor")
	vrt.Reach("handles/end")
}

// H_C19_KillReopen: the recovery paths (torn WAL tail, WAL file without header, unflagged folders, WAL replay
// into a new table) leave nothing open beyond the bound either, and Close after a recovery releases everything.
// Kill points as in C02 (model journal under the engine, strace journal natively).
func H_C19_KillReopen() {
	vrt.RandPromoteBudget(0)
	h := vNewDBEnvU(vUniverse[:1])
	defer h.fs.Cleanup()
	key := vUniverse[0]
	opts := []ExtraOption{MemstoreSizeBytes(math.MaxUint64), WriteBufferSizeBytes(64), ReadBufferSizeBytes(64)}
	base := h.fs.Base()
	h.fs.TraceStart()
	vrt.Assert(h.open(opts...) == nil, "killreopen/open-no-error")
	n := vrt.Range("steps", 0, 3)
	for i := 0; i < n; i++ {
		switch vrt.Choose(vrt.K("op", i), 3) {
		case 0:
			h.put(key, []byte{vrt.Byte(vrt.K("v", i))})
		case 1:
			h.del(key)
		case 2:
			h.db.rwLock.Lock()
			err := h.db.rotateWalAndFlushMemstore()
			h.db.rwLock.Unlock()
			vrt.Assert(err == nil, "killreopen/rotation-no-error")
			h.maybeFlush()
		}
	}
	h.runPendingNative()
	h.fs.TraceStop()
	for _, k := range h.fs.CrashPoints("crash") {
		img := h.fs.Image(k, base, nil)
		h2 := &vDB{fs: img, dir: h.fs.Rebase(img, h.dir), ref: h.ref}
		oerr := h2.open(opts...)
		vrt.Assert(oerr == nil, "killreopen/reopen-after-kill-no-error")
		if oerr == nil {
			h2.runPendingNative()
			vrt.Assert(img.OpenCount() <= h2.tables()+1, "killreopen/recovery-leaves-nothing-open-beyond-the-bound")
			vrt.Assert(h2.db.Close() == nil, "killreopen/close-no-error")
			vrt.Assert(img.OpenCount() == 0, "killreopen/none-left-after-close")
		}
		img.Cleanup()
	}
	vrt.TraceBool("done", true)
	vrt.Reach("killreopen/end")
}

// H_C19_CloseVsCompaction: Close while the compaction goroutine is in the middle of a cycle. The merge is done,
// the reflection of its result is attempted at every synchronisation point of Close (where it has to wait for the
// database lock it waits) - until Close has told the compactor to stop. After Close nothing stays open.
func H_C19_CloseVsCompaction() {
	vrt.RandPromoteBudget(0)
	h := vNewDBEnvU(vUniverse[:1])
	defer h.fs.Cleanup()
	key := vUniverse[0]
	h.withCompactor = true
	opts := []ExtraOption{MemstoreSizeBytes(math.MaxUint64), WriteBufferSizeBytes(64), ReadBufferSizeBytes(64), CompactionRunInterval(time.Hour)}
	vrt.Assert(h.open(opts...) == nil, "closevs/open-no-error")
	h.put(key, []byte{1})
	h.forceRotation()
	h.put(key, []byte{2})
	h.forceRotation()
	h.runPendingNative()
	h.db.compactedMaxSizeBytes = math.MaxUint64
	h.db.compactionFileThreshold = 1
	if vrt.Symbolic() {
		var meta *dbproto.CompactionMetadata
		h.inBackground = true
		vrt.RunAs(2, func() {
			m, err := executeCompaction(h.db)
			vrt.Assert(err == nil && m != nil, "closevs/compaction-no-error")
			meta = m
		})
		h.inBackground = false
		if meta == nil {
			return
		}
		reflected := false
		n := 0
		vrt.OnSync(func(kind string) {
			// the compactor is told to stop with a send on its stop channel and Close waits until it has ended:
			// from then on no cycle is running
			if reflected || h.compactorExited || h.inBackground {
				return
			}
			n++
			if vrt.Choose(vrt.K("inj", n), 2) == 1 {
				if vrt.TryRunAs(2, func() {
					vrt.Assert(h.db.sstableManager.reflectCompactionResult(meta) == nil, "closevs/reflect-no-error")
				}) {
					reflected = true
					vrt.Reach("closevs/reflection-ran-during-close")
				}
			}
		})
		h.close()
		vrt.OnSync(func(kind string) {})
	} else {
		inj := false
		for n := 1; n <= 24; n++ {
			if vrt.Choose(vrt.K("inj", n), 2) == 1 {
				inj = true
			}
		}
		if inj {
			// the real compactor goroutine does the cycle: Close queues up behind a read lock held here, then the
			// ticker is made to fire, the compactor merges and queues up behind Close for the database lock; then
			// the read lock is released: Close's locked section runs, then the reflection, then the rest of Close
			// (which waits for the compactor)
			h.db.rwLock.RLock()
			c := h.start(func() { vrt.Assert(h.db.Close() == nil, "db/close-no-error") })
			h.waitParkedOrDone(c)
			h.db.compactionTicker.Reset(time.Millisecond)
			vWaitUntil(func() bool {
				for _, st := range vrt.GoroutineStates("simpledb.backgroundCompaction", "reflectCompactionResult") {
					if vrt.Parked(st) {
						return true
					}
				}
				return false
			})
			h.db.rwLock.RUnlock()
			<-c.done
			if c.pnc != nil {
				panic(c.pnc)
			}
		} else {
			h.close()
		}
	}
	vrt.Assert(h.fs.OpenCount() == 0, "closevs/none-left-after-close")
	vrt.TraceBool("done", true)
	vrt.Reach("closevs/end")
}
