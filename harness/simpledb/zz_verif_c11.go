//go:build verif

package simpledb

import (
	"math"
	"strings"

	"github.com/thomasjungblut/go-sstables/vrt"
)

// H_C11_DBFaults: a failing file-system call (create, write, rename, unlink, mkdir) at any position of a memstore flush or of a compaction is reported
// by the step (the flusher / compactor then stops the process); it never reports success, the WAL file is not
// removed and the table not installed (flush), no success flag is written and nothing is reflected (compaction);
// and the directory the stopped process leaves behind recovers to the acknowledged state.
// Symbolic engine only: the model file system injects the fault (no native counterpart).
func H_C11_DBFaults() {
	vrt.Assume(vrt.Symbolic())
	vrt.RandPromoteBudget(0)
	h := vNewDBEnvU(vUniverse[:1])
	defer h.fs.Cleanup()
	key := vUniverse[0]
	vrt.Assert(h.open(MemstoreSizeBytes(math.MaxUint64), WriteBufferSizeBytes(64), ReadBufferSizeBytes(64)) == nil, "dbfaults/open-no-error")
	h.put(key, []byte{vrt.Byte("v1")})
	scenario := vrt.Choose("scenario", 2)
	k := vrt.Range("fault", 0, 34)
	if scenario == 0 {
		// ---- flush ----
		h.db.rwLock.Lock()
		err := h.db.rotateWalAndFlushMemstore()
		h.db.rwLock.Unlock()
		vrt.Assert(err == nil && h.pending != nil, "dbfaults/rotation-no-error")
		walPath := h.pending.walPath
		before := h.tables()
		a := *h.pending
		h.pending = nil
		h.fs.ArmOpFault(k)
		var ferr error
		h.inBackground = true
		vrt.RunAs(1, func() { ferr = executeFlush(h.db, a) })
		h.inBackground = false
		hit := h.fs.OpFaultHit()
		h.fs.DisarmOpFault()
		if hit {
			vrt.Reach("dbfaults/flush-write-failed")
			vrt.Assert(ferr != nil, "dbfaults/flush-reports-the-write-failure")
			vrt.Assert(h.tables() == before, "dbfaults/failed-flush-installs-no-table")
			vrt.Assert(h.fs.Exists(walPath), "dbfaults/failed-flush-keeps-the-wal-file")
		} else {
			vrt.Assert(ferr == nil, "dbfaults/flush-without-fault-succeeds")
		}
	} else {
		// ---- compaction ----
		h.forceRotation()
		if vrt.Choose("second", 2) == 0 {
			h.put(key, []byte{vrt.Byte("v2")})
		} else {
			h.del(key)
		}
		h.forceRotation()
		h.db.compactedMaxSizeBytes = math.MaxUint64
		h.db.compactionFileThreshold = 1
		before := h.tables()
		h.fs.ArmOpFault(k)
		meta, cerr := executeCompaction(h.db)
		hit := h.fs.OpFaultHit()
		h.fs.DisarmOpFault()
		if hit {
			vrt.Reach("dbfaults/compaction-write-failed")
			vrt.Assert(cerr != nil, "dbfaults/compaction-reports-the-write-failure")
			vrt.Assert(meta == nil, "dbfaults/failed-compaction-returns-nothing-to-reflect")
			flagged := false
			for _, name := range h.fs.List(h.dir) {
				if strings.HasPrefix(name, SSTableCompactionPathPrefix) && h.fs.Exists(h.dir+"/"+name+"/"+CompactionFinishedSuccessfulFileName) &&
					h.fs.FileSize(h.dir+"/"+name+"/"+CompactionFinishedSuccessfulFileName) > 8 {
					flagged = true
				}
			}
			vrt.Assert(!flagged, "dbfaults/failed-compaction-writes-no-success-flag")
			vrt.Assert(h.tables() == before, "dbfaults/failed-compaction-is-not-installed")
		} else {
			vrt.Assert(cerr == nil && meta != nil, "dbfaults/compaction-without-fault-succeeds")
			vrt.Assert(h.db.sstableManager.reflectCompactionResult(meta) == nil, "dbfaults/reflect-no-error")
		}
	}
	// the process stops on such an error: what it leaves behind must recover to the acknowledged state
	img := h.fs.CrashImage(len(h.fs.Journal), nil)
	img.Activate()
	h2 := &vDB{fs: img, dir: h.dir, ref: h.ref}
	oerr := h2.open(MemstoreSizeBytes(math.MaxUint64), WriteBufferSizeBytes(64), ReadBufferSizeBytes(64))
	if oerr != nil {
		vrt.Note("open after stop: " + oerr.Error())
	}
	vrt.Assert(oerr == nil, "dbfaults/reopen-after-the-stop-succeeds")
	if oerr == nil {
		h2.checkReads("dbfaults/reads-after-recovery")
	}
	vrt.Reach("dbfaults/end")
}
