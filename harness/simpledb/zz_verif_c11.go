//go:build verif

package simpledb

import (
	"fmt"
	"math"
	"os"
	"path/filepath"
	"strings"

	rProto "github.com/thomasjungblut/go-sstables/recordio/proto"
	dbproto "github.com/thomasjungblut/go-sstables/simpledb/proto"

	"github.com/thomasjungblut/go-sstables/vrt"
)

// vFault says which file-system call of the step under test fails.
//   - under the engine: the k-th mutating call on the model file system (create, write, truncate, rename,
//     unlink, rmdir, mkdir) fails without effect;
//   - natively: either every write that would extend a file beyond limit bytes fails (RLIMIT_FSIZE: a short
//     write followed by EFBIG, like a full disk), or the rename of the finished table into place fails
//     (a non-empty directory sits at the target); none = dry run.
type vFault struct {
	k           int
	native      bool
	limit       int64 // native: -1 = no limit
	blockRename bool  // native, flush only
}

func (f *vFault) none() bool { return f.native && f.limit < 0 && !f.blockRename }

// H_C11_DBFaults: a failing file-system call at any position of a memstore flush or of a compaction is reported
// by the step (the flusher / compactor then stops the process); it never reports success, the WAL file is not
// removed and the table not installed (flush), no success flag is written and nothing is reflected (compaction);
// and the directory the stopped process leaves behind recovers to the acknowledged state.
//
// The engine decides this for every position k of the failing call. The native run (translator validation and
// replay of counterexamples) repeats the scenario for every file size limit below the largest file the step
// writes, and for a failing rename: the positions differ from the model's (the real encoders give other sizes),
// so natively all of them are tried, as with the kill points of the crash harnesses.
func H_C11_DBFaults() {
	vrt.RandPromoteBudget(0)
	sc := &vFaultScenario{
		v1:       vrt.Byte("v1"),
		scenario: vrt.Choose("scenario", 2),
	}
	if sc.scenario == 1 {
		sc.second = vrt.Choose("second", 2)
		if sc.second == 0 {
			sc.v2 = vrt.Byte("v2")
		}
	}
	if vrt.Symbolic() {
		sc.run(&vFault{k: vrt.Range("fault", 0, 34)})
	} else {
		largest := sc.run(&vFault{native: true, limit: -1})
		for l := int64(0); l < largest; l++ {
			sc.run(&vFault{native: true, limit: l})
		}
		if sc.scenario == 0 {
			sc.run(&vFault{native: true, limit: -1, blockRename: true})
		}
	}
	vrt.TraceBool("done", true)
	vrt.Reach("dbfaults/end")
}

type vFaultScenario struct {
	scenario, second int
	v1, v2           byte
}

// run plays the scenario once on a fresh directory; it returns the size of the largest file the step wrote.
func (sc *vFaultScenario) run(f *vFault) int64 {
	h := vNewDBEnvU(vUniverse[:1])
	defer h.fs.Cleanup()
	key := vUniverse[0]
	opts := []ExtraOption{MemstoreSizeBytes(math.MaxUint64), WriteBufferSizeBytes(64), ReadBufferSizeBytes(64)}
	vrt.Assert(h.open(opts...) == nil, "dbfaults/open-no-error")
	h.put(key, []byte{sc.v1})
	var before map[string]bool
	var largest int64
	blocker := ""
	arm := func() {
		if !f.native {
			h.fs.ArmOpFault(f.k)
			return
		}
		_, before = vrt.LargestFileUnder(h.dir, nil)
		if f.blockRename {
			blocker = filepath.Join(h.dir, fmt.Sprintf(SSTablePattern, h.db.currentGeneration+1))
			vrt.BlockPath(blocker)
		}
		if f.limit >= 0 {
			vrt.LimitFileSize(f.limit)
		}
	}
	disarm := func() bool {
		if !f.native {
			hit := h.fs.OpFaultHit()
			h.fs.DisarmOpFault()
			return hit
		}
		if f.limit >= 0 {
			vrt.UnlimitFileSize()
		}
		if blocker != "" {
			vrt.UnblockPath(blocker)
		}
		largest, _ = vrt.LargestFileUnder(h.dir, before)
		return !f.none()
	}
	if sc.scenario == 0 {
		// ---- flush ----
		a := h.rotateAndTakeAction()
		walPath := a.walPath
		tablesBefore := h.tables()
		arm()
		var ferr error
		h.inBackground = true
		vrt.RunAs(1, func() { ferr = executeFlush(h.db, a) })
		h.inBackground = false
		hit := disarm()
		switch {
		case !hit:
			vrt.Assert(ferr == nil, "dbfaults/flush-without-fault-succeeds")
		case ferr != nil:
			vrt.Reach("dbfaults/flush-write-failed")
			vrt.Assert(h.tables() == tablesBefore, "dbfaults/failed-flush-installs-no-table")
			vrt.Assert(h.fs.Exists(walPath), "dbfaults/failed-flush-keeps-the-wal-file")
		default:
			// the step reports success although a call failed: acceptable only if no record is missing or
			// misrepresented (the one case on the unchanged tree: the bloom filter file, whose write errors
			// the bloom filter library itself drops; a table without a readable filter is read without one)
			vrt.Reach("dbfaults/fault-absorbed-without-effect-on-records")
			h.checkReads("dbfaults/success-reported-after-a-fault-means-nothing-is-missing")
		}
	} else {
		// ---- compaction ----
		h.forceRotation()
		if sc.second == 0 {
			h.put(key, []byte{sc.v2})
		} else {
			h.del(key)
		}
		h.forceRotation()
		h.db.compactedMaxSizeBytes = math.MaxUint64
		h.db.compactionFileThreshold = 1
		tablesBefore := h.tables()
		arm()
		meta, cerr := executeCompaction(h.db)
		hit := disarm()
		if !hit {
			vrt.Assert(cerr == nil && meta != nil, "dbfaults/compaction-without-fault-succeeds")
		}
		if cerr != nil {
			vrt.Reach("dbfaults/compaction-write-failed")
			vrt.Assert(meta == nil, "dbfaults/failed-compaction-returns-nothing-to-reflect")
			flagged := false
			for _, name := range h.fs.List(h.dir) {
				if strings.HasPrefix(name, SSTableCompactionPathPrefix) && vFlagReadable(h.dir+"/"+name+"/"+CompactionFinishedSuccessfulFileName) {
					flagged = true
				}
			}
			vrt.Assert(!flagged, "dbfaults/failed-compaction-writes-no-success-flag")
			vrt.Assert(h.tables() == tablesBefore, "dbfaults/failed-compaction-is-not-installed")
		} else if meta != nil {
			if hit {
				vrt.Reach("dbfaults/fault-absorbed-without-effect-on-records")
			}
			// success reported (with or without a fault): what gets installed must hold every record
			vrt.Assert(h.db.sstableManager.reflectCompactionResult(meta) == nil, "dbfaults/reflect-no-error")
			h.checkReads("dbfaults/success-reported-after-a-fault-means-nothing-is-missing")
		}
	}
	// the process stops on such an error: what it leaves behind must recover to the acknowledged state
	img, idir := h.stopImage()
	defer img.Cleanup()
	h2 := &vDB{fs: img, dir: idir, ref: h.ref}
	oerr := h2.open(opts...)
	if oerr != nil {
		vrt.Note("open after stop: " + oerr.Error())
	}
	vrt.Assert(oerr == nil, "dbfaults/reopen-after-the-stop-succeeds")
	if oerr == nil {
		h2.checkReads("dbfaults/reads-after-recovery")
		if !vrt.Symbolic() {
			h2.close()
		}
	}
	h.abandon()
	return largest
}

// abandon: native runs repeat the scenario many times in one process; the files of the "stopped" database are
// released without running Close (which would flush and change the directory, and wait for the flusher).
func (h *vDB) abandon() {
	if vrt.Symbolic() {
		return
	}
	h.db.wal.Close()
	h.db.sstableManager.currentSSTable().Close()
}

// vFlagReadable: a success flag the recovery would accept (it reads it the same way). A flag file that is empty
// or cut short by the failing write does not count: the recovery discards such a folder.
func vFlagReadable(path string) bool {
	if _, err := os.Stat(path); err != nil {
		return false
	}
	reader, err := rProto.NewReader(rProto.ReaderPath(path))
	if err != nil {
		return false
	}
	defer reader.Close()
	if reader.Open() != nil {
		return false
	}
	_, err = reader.ReadNext(&dbproto.CompactionMetadata{})
	return err == nil
}

// stopImage: the directory as the stopped process leaves it (no Close). Under the engine the journal replayed
// into a fresh model file system; natively a copy of the directory tree.
func (h *vDB) stopImage() (*vrt.FS, string) {
	if vrt.Symbolic() {
		img := h.fs.CrashImage(len(h.fs.Journal), nil)
		img.Activate()
		return img, h.dir
	}
	// the flusher goroutine must be idle: a copy taken while it writes is not the image of any kill
	h.runPendingNative()
	img := h.fs.CopyTree()
	return img, filepath.Join(img.Root, strings.TrimPrefix(h.dir, h.fs.Root))
}

// rotateAndTakeAction rotates the memstore and returns the action meant for the flusher without letting the
// flusher have it, so that the harness can run executeFlush itself (a failing flush in the real flusher goroutine
// would end the test process, as it ends the real one). Natively the flusher goroutine is parked on a channel
// nobody sends to any more and the harness receives the hand-off.
func (h *vDB) rotateAndTakeAction() memStoreFlushAction {
	if vrt.Symbolic() {
		h.db.rwLock.Lock()
		err := h.db.rotateWalAndFlushMemstore()
		h.db.rwLock.Unlock()
		vrt.Assert(err == nil && h.pending != nil, "dbfaults/rotation-no-error")
		a := *h.pending
		h.pending = nil
		return a
	}
	vrt.WaitGoroutineIdle("simpledb.flushMemstoreContinuously")
	h.db.rwLock.Lock()
	h.db.storeFlushChannel = make(chan memStoreFlushAction)
	h.db.rwLock.Unlock()
	done := make(chan error)
	go func() {
		h.db.rwLock.Lock()
		err := h.db.rotateWalAndFlushMemstore()
		h.db.rwLock.Unlock()
		done <- err
	}()
	a := <-h.db.storeFlushChannel
	vrt.Assert(<-done == nil, "dbfaults/rotation-no-error")
	return a
}

// H_C11_DamagedInput: a compaction whose input cannot be read completely (the data file of one input table was cut
// or a byte of it altered after the table was written) either fails - nothing is flagged or installed - or, if it
// reports success, what it installs holds every record: it never reports success for an output that is missing
// records.
func H_C11_DamagedInput() {
	vrt.RandPromoteBudget(0)
	h := vNewDBEnvU(vUniverse)
	defer h.fs.Cleanup()
	opts := []ExtraOption{MemstoreSizeBytes(math.MaxUint64), WriteBufferSizeBytes(64), ReadBufferSizeBytes(64)}
	vrt.Assert(h.open(opts...) == nil, "damagedinput/open-no-error")
	a, b := vUniverse[0], vUniverse[1]
	// table 1: a and b live; table 2: one of them overwritten, the other one deleted or overwritten
	h.put(a, []byte{1})
	h.put(b, []byte{2})
	h.forceRotation()
	h.put(a, []byte{3})
	if vrt.Choose("second", 2) == 0 {
		h.del(b)
	} else {
		h.put(b, []byte{4})
	}
	h.forceRotation()
	h.runPendingNative()
	victim := vrt.Choose("victim", 2)
	h.db.sstableManager.managerLock.RLock()
	dp := h.db.sstableManager.allSSTableReaders[victim].BasePath() + "/data.rio"
	h.db.sstableManager.managerLock.RUnlock()
	data := h.fs.ReadFile(dp)
	vrt.Assert(len(data) > 8, "damagedinput/data-file-has-records")
	// cut anywhere behind the file header (percentage: the real encoders give other lengths than the stand-ins)
	cut := 8 + vrt.Range("cut", 0, 99)*(len(data)-8)/100
	if vrt.Symbolic() {
		vrt.Assert(len(data)-8 <= 100, "damagedinput/model-file-is-short-enough-to-reach-every-cut")
	}
	h.fs.WriteFile(dp, data[:cut])
	h.db.compactedMaxSizeBytes = math.MaxUint64
	h.db.compactionFileThreshold = 1
	tablesBefore := h.tables()
	meta, cerr := executeCompaction(h.db)
	if cerr != nil {
		vrt.Reach("damagedinput/compaction-failed")
		vrt.Assert(meta == nil, "damagedinput/failed-compaction-returns-nothing-to-reflect")
		flagged := false
		for _, name := range h.fs.List(h.dir) {
			if strings.HasPrefix(name, SSTableCompactionPathPrefix) && vFlagReadable(h.dir+"/"+name+"/"+CompactionFinishedSuccessfulFileName) {
				flagged = true
			}
		}
		vrt.Assert(!flagged, "damagedinput/failed-compaction-writes-no-success-flag")
		vrt.Assert(h.tables() == tablesBefore, "damagedinput/failed-compaction-is-not-installed")
	} else if meta != nil {
		vrt.Reach("damagedinput/compaction-reported-success")
		vrt.Assert(h.db.sstableManager.reflectCompactionResult(meta) == nil, "damagedinput/reflect-no-error")
		h.checkReads("damagedinput/success-reported-means-nothing-is-missing")
		// the rotated-out memstore still answers for the newest writes: look again after a restart
		h.close()
		vrt.Assert(h.open(opts...) == nil, "damagedinput/reopen-no-error")
		h.checkReads("damagedinput/success-reported-means-nothing-is-missing-after-restart")
		h.close()
	}
	vrt.TraceBool("done", true)
	vrt.Reach("damagedinput/end")
}
