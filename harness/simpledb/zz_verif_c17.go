//go:build verif

package simpledb

import (
	"errors"
	"math"

	"github.com/thomasjungblut/go-sstables/vrt"
)

func vArg(k string) []byte {
	switch vrt.Choose(k+".kind", 4) {
	case 0:
		return nil
	case 1:
		return []byte{}
	case 3:
		// a long argument (longer than any fixed-size scratch buffer one might put on the call path): 1100 bytes,
		// of which the first 1099 are shared by all long arguments
		b := make([]byte, 1100)
		for i := range b {
			b[i] = 'k'
		}
		b[len(b)-1] = byte('0' + len(k)%10)
		vrt.Tag("long-argument")
		return b
	}
	return []byte{vrt.Byte(k)} // any byte, including bytes that are not valid UTF-8 on their own
}

func (h *vDB) reopen(id string) bool {
	h.close()
	err := h.open(MemstoreSizeBytes(math.MaxUint64), WriteBufferSizeBytes(64), ReadBufferSizeBytes(64))
	if err != nil {
		vrt.Note("open: " + err.Error())
	}
	vrt.Assert(err == nil, id)
	return err == nil
}

// H_C17_Calls: both API flavours accept and reject the same arguments as documented; a call that returns an
// error has no effect (directly, after a flush, after a clean restart, after a kill and recovery); what a key
// reads as does not change because a flush or a restart happened.
func H_C17_Calls() {
	vrt.RandPromoteBudget(0)
	h := vNewDBEnvU(vUniverse[:1])
	defer h.fs.Cleanup()
	vrt.Assert(h.open(MemstoreSizeBytes(math.MaxUint64), WriteBufferSizeBytes(64), ReadBufferSizeBytes(64)) == nil, "db/open-no-error")
	if vrt.Choose("pre", 2) == 1 {
		h.put(vUniverse[0], []byte{vrt.Byte("v0")})
	}

	str := vrt.Choose("flavour", 2) == 1
	op := vrt.Choose("op", 3)
	key := vArg("key")
	if str && key == nil {
		vrt.Assume(false) // a string cannot be nil: covered by the empty string
	}
	var err error
	switch op {
	case 0: // Put
		val := vArg("val")
		if str && val == nil {
			vrt.Assume(false)
		}
		if str {
			err = h.db.Put(string(key), string(val))
		} else {
			err = h.db.PutBytes(key, val)
		}
		if len(key) == 0 || len(val) == 0 {
			vrt.Reach("calls/put-with-empty-argument")
			if !str {
				vrt.Tag("bytes-flavour")
			}
			vrt.Assert(err != nil, "calls/put-rejects-empty-key-or-value")
		} else {
			vrt.Assert(err == nil, "calls/put-accepts-non-empty-key-and-value")
		}
		if err == nil {
			r := h.refOf(key)
			if r == nil {
				r = &vRef{key: key}
				h.ref = append(h.ref, r)
			}
			r.val, r.present = val, len(val) > 0
		}
	case 1: // Delete: any key is accepted, absent keys are ignored
		if str {
			err = h.db.Delete(string(key))
		} else {
			err = h.db.DeleteBytes(key)
		}
		vrt.Assert(err == nil, "calls/delete-accepts-any-key")
		if r := h.refOf(key); r != nil {
			r.val, r.present = nil, false
		}
	case 2: // Get
		r := h.refOf(key)
		var got []byte
		if str {
			var s string
			s, err = h.db.Get(string(key))
			got = []byte(s)
		} else {
			got, err = h.db.GetBytes(key)
		}
		if r != nil && r.present {
			vrt.Assert(err == nil && vrt.EqBytes(got, r.val), "calls/get-present-key")
		} else {
			vrt.Assert(errors.Is(err, ErrNotFound), "calls/get-absent-key-not-found")
		}
	}
	vrt.TraceBool("err", err != nil)
	if err != nil {
		vrt.Tag("call-returned-error")
	}
	// the reference map was only changed by accepted calls: every observation point must agree with it
	h.checkReads("calls/reads-directly")
	// and the two flavours of Get agree on every key of the map
	for _, r := range h.ref {
		sv, serr := h.db.Get(string(r.key))
		bv, berr := h.db.GetBytes(r.key)
		vrt.Assert((serr == nil) == (berr == nil), "calls/get-flavours-agree-on-presence")
		if serr == nil && berr == nil {
			vrt.Assert(vrt.EqBytes([]byte(sv), bv), "calls/get-flavours-agree-on-the-value")
		}
	}
	{
		// kill right after the call, recover, look again (natively: a copy of the directory as it is now -
		// every completed system call persists in the kill model)
		live := h.fs
		img, idir := h.stopImage()
		h2 := &vDB{fs: img, dir: idir, ref: h.ref}
		oerr := h2.open(MemstoreSizeBytes(math.MaxUint64), WriteBufferSizeBytes(64), ReadBufferSizeBytes(64))
		if oerr != nil {
			vrt.Note("open after kill: " + oerr.Error())
		}
		vrt.Assert(oerr == nil, "calls/open-after-kill-succeeds")
		if oerr == nil {
			h2.checkReads("calls/reads-after-kill-and-recovery")
			if !vrt.Symbolic() {
				h2.close()
			}
		}
		if vrt.Symbolic() {
			live.Activate()
			vrt.OnBlock(func(what string) { h.onBlock(what) })
		} else {
			img.Cleanup()
		}
	}
	h.forceRotation()
	h.checkReads("calls/reads-after-flush")
	h.forceRotation()
	h.checkReads("calls/reads-after-second-rotation")
	if h.reopen("calls/clean-reopen-succeeds") {
		h.checkReads("calls/reads-after-clean-restart")
		h.close()
	}
	vrt.Reach("calls/end")
}

// H_C17_DirectIOSync: the direct I/O log together with synchronous appends refuses every mutation (the appender
// cannot force a partly filled block to disk): a refused Put or Delete then has no effect - not directly, not
// after a kill, not after a clean restart. (Where the file system has no direct I/O the option falls back to
// buffered writes and the calls are accepted: then they take effect.)
func H_C17_DirectIOSync() {
	vrt.RandPromoteBudget(0)
	h := vNewDBEnvU(vUniverse[:2])
	defer h.fs.Cleanup()
	base := []ExtraOption{MemstoreSizeBytes(math.MaxUint64), WriteBufferSizeBytes(64), ReadBufferSizeBytes(64)}
	vrt.Assert(h.open(base...) == nil, "db/open-no-error")
	h.put(vUniverse[0], []byte{vrt.Byte("v0")})
	h.close()
	vrt.Assert(h.open(append([]ExtraOption{EnableDirectIOWAL()}, base...)...) == nil, "directio/open-no-error")
	str := vrt.Choose("flavour", 2) == 1
	n := vrt.Range("calls", 1, 2)
	for i := 0; i < n; i++ {
		key := vUniverse[vrt.Choose("key"+string(rune('0'+i)), 2)]
		var err error
		if vrt.Choose("op"+string(rune('0'+i)), 2) == 0 {
			val := []byte{vrt.Byte("w" + string(rune('0'+i)))}
			if str {
				err = h.db.Put(string(key), string(val))
			} else {
				err = h.db.PutBytes(key, val)
			}
			if err == nil {
				r := h.refOf(key)
				if r == nil {
					r = &vRef{key: key}
					h.ref = append(h.ref, r)
				}
				r.val, r.present = val, true
			}
		} else {
			if str {
				err = h.db.Delete(string(key))
			} else {
				err = h.db.DeleteBytes(key)
			}
			if err == nil {
				if r := h.refOf(key); r != nil {
					r.val, r.present = nil, false
				}
			}
		}
		if err != nil {
			vrt.Reach("directio/call-refused")
		}
		vrt.TraceBool("err"+string(rune('0'+i)), err != nil)
	}
	for _, k := range vUniverse[:2] {
		if h.refOf(k) == nil {
			h.ref = append(h.ref, &vRef{key: k})
		}
	}
	h.checkReads("directio/reads-directly")
	if vrt.Choose("end", 2) == 0 {
		img, idir := h.stopImage()
		h2 := &vDB{fs: img, dir: idir, ref: h.ref}
		oerr := h2.open(base...)
		if oerr != nil {
			vrt.Note("open after kill: " + oerr.Error())
		}
		vrt.Assert(oerr == nil, "directio/open-after-kill-succeeds")
		if oerr == nil {
			h2.checkReads("directio/reads-after-kill-and-recovery")
			if !vrt.Symbolic() {
				h2.close()
			}
		}
		if !vrt.Symbolic() {
			img.Cleanup()
			h.close()
		}
	} else {
		h.close()
		oerr := h.open(base...)
		vrt.Assert(oerr == nil, "directio/clean-reopen-succeeds")
		if oerr == nil {
			h.checkReads("directio/reads-after-clean-restart")
			h.close()
		}
	}
	vrt.Reach("directio/end")
}
