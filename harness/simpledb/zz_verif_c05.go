//go:build verif

package simpledb

import (
	"errors"

	"github.com/thomasjungblut/go-sstables/vrt"
)

// H_C05_Sched: client calls stay map-like while the background flush of a rotated memstore completes at any
// synchronisation operation inside the calls (lock, unlock, channel hand-off) and compaction cycles run between
// them. Together with the lock discipline of C18 (every shared location has a common lock, so each call takes
// effect atomically inside its own lock section) this is the reduction of linearizability the engine can decide.
func H_C05_Sched() {
	vrt.RandPromoteBudget(0)
	h := vNewDBEnv()
	defer h.fs.Cleanup()
	vrt.Assert(h.open(vSessionOpts(0)...) == nil, "lin/open-no-error")
	h.enableSyncScheduling()
	steps := 3
	if vrt.Thorough() {
		steps = 4
	}
	nv := 0
	for s := 0; s < steps; s++ {
		k := vUniverse[vrt.Choose(vrt.K("key", s), len(vUniverse))]
		switch vrt.Choose(vrt.K("op", s), 4) {
		case 0:
			nv++
			h.put(k, []byte{vrt.Byte(vrt.K("v", nv))})
		case 1:
			h.del(k)
		case 2:
			// the answer of a Get must be the value of the latest completed Put/Delete, whatever completed inside it
			r := h.refOf(k)
			got, err := h.db.GetBytes(k)
			if r.present {
				vrt.Assert(err == nil && vrt.EqBytes(got, r.val), "lin/get-returns-latest-completed-put")
			} else {
				vrt.Assert(errors.Is(err, ErrNotFound), "lin/get-of-deleted-or-absent-key-not-found")
			}
		case 3:
			h.autoSched = false
			h.runPending()
			h.db.compactedMaxSizeBytes = h.chooseMaxSize(vrt.K("maxsize", s))
			h.compactionCycle()
			h.autoSched = true
		}
		h.autoSched = false
		h.checkReads("lin/reads")
		h.autoSched = true
	}
	h.autoSched = false
	h.close()
	vrt.TraceBool("done", true)
	vrt.Reach("lin/end")
}
