//go:build verif

package simpledb

import (
	"errors"
	"math"
	"strings"

	"github.com/thomasjungblut/go-sstables/sstables"
	"github.com/thomasjungblut/go-sstables/vrt"
)

// ---- whole-database harness support: the real DB on the model file system; the flusher and compactor goroutines
// are replaced by a scheduler that calls their real step functions (executeFlush, executeCompaction,
// reflectCompactionResult) at points chosen by the exploration ----

type vRef struct {
	key     []byte
	val     []byte
	present bool
}

type vDB struct {
	fs       *vrt.FS
	db       *DB
	dir      string
	pending  *memStoreFlushAction // handed to the flusher, table not written yet
	flusherExited bool
	compactorExited bool
	withCompactor bool
	inBackground bool
	flushErr error
	ref      []*vRef
	sched    int
	autoSched bool // run a pending flush at solver/fork-chosen sync points inside client calls
	cycles   int
	dirSuffix  string // spelling of the directory as given to NewSimpleDB: "" or "/" (a trailing separator is accepted)
	checkLeaks bool // close() also requires that nothing under the directory stays open (C19)
	gate     chan struct{} // native runs of gated harnesses: one token lets the stalled flusher write one table
}

var vUniverse = [][]byte{{'a'}, {'b'}}

func vNewDBEnv() *vDB { return vNewDBEnvU(vUniverse) }

func vNewDBEnvU(universe [][]byte) *vDB {
	fs := sstables.VEnv()
	h := &vDB{fs: fs, dir: fs.Path("db")}
	fs.MkdirAll(h.dir)
	for _, k := range universe {
		h.ref = append(h.ref, &vRef{key: k})
	}
	return h
}

// open creates a DB object on the directory and runs the real Open (recovery included).
func (h *vDB) open(opts ...ExtraOption) error {
	if !h.withCompactor {
		opts = append([]ExtraOption{DisableCompactions()}, opts...)
	}
	h.compactorExited = false
	db, err := NewSimpleDB(h.dir+h.dirSuffix, opts...)
	vrt.Assert(err == nil, "db/new-no-error")
	h.db = db
	h.pending = nil
	h.flusherExited = false
	vrt.OnBlock(func(what string) { h.onBlock(what) })
	return db.Open()
}

// runPending is the flusher goroutine's loop body for the action it has received.
// enableSyncScheduling: a pending background flush may complete at any synchronisation operation (lock, unlock,
// channel send) of a client call, not only between calls.
func (h *vDB) enableSyncScheduling() {
	h.autoSched = true
	vrt.OnSync(func(kind string) {
		if h.inBackground || h.pending == nil || !h.autoSched {
			return
		}
		h.sched++
		if vrt.Choose(vrt.K("sync", h.sched), 2) == 1 {
			vrt.Reach("db/flush-completes-inside-a-client-call")
			h.runPending()
		}
	})
}

func (h *vDB) runPending() {
	if !vrt.Symbolic() {
		vrt.WaitGoroutineIdle("simpledb.flushMemstoreContinuously")
		return
	}
	if h.pending == nil {
		return
	}
	a := *h.pending
	h.pending = nil
	h.inBackground = true
	defer func() { h.inBackground = false }()
	vrt.RunAs(1, func() {
		if err := executeFlush(h.db, a); err != nil {
			vrt.Note("executeFlush: " + err.Error())
			// flushMemstoreContinuously: log.Panicf ⇒ the process stops
			h.flushErr = err
			vrt.Fail("db/flush-cycle-never-fails")
		}
	})
}

// onBlock is called when the client thread cannot go on: the flusher goroutine gets to run.
func (h *vDB) onBlock(what string) {
	if h.flusherExited {
		// the compactor goroutine: its select sees the stop signal, returns, the deferred done signal is sent
		if h.db.enableCompactions && !h.compactorExited {
			select {
			case <-h.db.compactionTickerStopChannel:
				h.compactorExited = true
				h.db.doneCompactionChannel <- true
			default:
			}
		}
		return
	}
	// the flusher finishes the table it is working on before it receives again
	h.runPending()
	select {
	case a, ok := <-h.db.storeFlushChannel:
		if ok {
			h.pending = &a
		} else {
			// channel closed: the range loop ends, the deferred done signal is sent
			h.flusherExited = true
			h.db.doneFlushChannel <- true
		}
	default:
	}
}

// maybeFlush: scheduling point between client calls.
func (h *vDB) maybeFlush() {
	if !vrt.Symbolic() {
		vrt.WaitGoroutineIdle("simpledb.flushMemstoreContinuously")
		return
	}
	if h.pending != nil {
		h.sched++
		if vrt.Choose(vrt.K("sched", h.sched), 2) == 1 {
			h.runPending()
		}
	}
}

func (h *vDB) refOf(k []byte) *vRef {
	for _, r := range h.ref {
		if vrt.EqBytes(r.key, k) {
			return r
		}
	}
	return nil
}

// checkReads: every key of the universe reads as the reference map says.
func (h *vDB) checkReads(id string) {
	for _, r := range h.ref {
		got, err := h.db.GetBytes(r.key)
		if r.present {
			vrt.Assert(err == nil, id+"/present-key-found")
			if err == nil {
				vrt.Assert(vrt.EqBytes(got, r.val), id+"/value-of-most-recent-put")
			}
		} else {
			vrt.Assert(errors.Is(err, ErrNotFound), id+"/absent-or-deleted-key-not-found")
		}
	}
}

func (h *vDB) put(k, v []byte) {
	var err error
	h.call(func() { err = h.db.PutBytes(k, v) })
	vrt.Assert(err == nil, "db/put-no-error")
	r := h.refOf(k)
	r.val, r.present = v, true
}

func (h *vDB) del(k []byte) {
	var err error
	h.call(func() { err = h.db.DeleteBytes(k) })
	vrt.Assert(err == nil, "db/delete-no-error")
	r := h.refOf(k)
	r.val, r.present = nil, false
}

// compactionCycle runs what one tick of backgroundCompaction does.
func (h *vDB) compactionCycle() {
	if !vrt.Symbolic() {
		vrt.WaitGoroutineIdle("simpledb.flushMemstoreContinuously")
	}
	h.inBackground = true
	defer func() { h.inBackground = false }()
	vrt.RunAs(2, func() { h.compactionCycleBody() })
}

func (h *vDB) compactionCycleBody() {
	meta, err := executeCompaction(h.db)
	if err != nil {
		vrt.Note("executeCompaction: " + err.Error())
		vrt.Fail("db/compaction-cycle-never-fails")
		return
	}
	if meta == nil {
		return
	}
	h.cycles++
	vrt.Reach("db/compaction-ran")
	oldest := ""
	h.db.sstableManager.managerLock.RLock()
	if rs := h.db.sstableManager.allSSTableReaders; len(rs) > 0 {
		oldest = rs[0].BasePath()
	}
	h.db.sstableManager.managerLock.RUnlock()
	if !strings.HasSuffix(oldest, meta.ReplacementPath) {
		vrt.Tag("compaction-excludes-oldest-table")
		vrt.Reach("db/compaction-excludes-oldest-table")
	}
	if err := h.db.sstableManager.reflectCompactionResult(meta); err != nil {
		vrt.Note("reflectCompactionResult: " + err.Error())
		vrt.Fail("db/compaction-cycle-never-fails")
	}
}

func (h *vDB) close() {
	var err error
	h.call(func() { err = h.db.Close() })
	vrt.Assert(err == nil, "db/close-no-error")
	vrt.Assert(h.pending == nil, "db/close-waits-for-the-flusher")
	if h.checkLeaks {
		vrt.Assert(h.fs.OpenCount() == 0, "db/close-leaves-no-descriptor-or-mapping-open")
	}
}

func (h *vDB) tables() int { return len(h.db.sstableManager.allSSTableReaders) }

// runPendingNative: natively wait until the real flusher goroutine is idle (no-op under the symbolic engine).
func (h *vDB) runPendingNative() {
	if !vrt.Symbolic() {
		vrt.WaitGoroutineIdle("simpledb.flushMemstoreContinuously")
	}
}

// chooseMaxSize picks the compaction size limit relative to the sizes of the live tables: 0, each table's size,
// each size + 1, or no limit. These are all the distinct outcomes of "TotalBytes < limit" over the tables, and -
// unlike a raw number - the choice means the same thing natively, where the real protobuf encoding gives the
// tables other sizes than the stand-in codec.
func (h *vDB) chooseMaxSize(key string) uint64 {
	h.db.sstableManager.managerLock.RLock()
	var sizes []uint64
	for _, r := range h.db.sstableManager.allSSTableReaders {
		sizes = append(sizes, r.MetaData().TotalBytes)
	}
	h.db.sstableManager.managerLock.RUnlock()
	c := vrt.Choose(key, 2*len(sizes)+2)
	switch {
	case c == 0:
		return 0
	case c == 2*len(sizes)+1:
		return math.MaxUint64
	}
	return sizes[(c-1)/2] + uint64((c-1)%2)
}
