//go:build verif

package simpledb

import (
	"math"
	"sync"

	"github.com/thomasjungblut/go-sstables/vrt"
)

// H_C18_Locks: lock discipline of the database. Every location that client calls and background steps share and
// that is written after Open must have one lock that is held at every access (exclusively at every write):
// with that, no two accesses of which one is a write can run at the same time - no data race - and every call
// sees and leaves the state it would see and leave when executed alone.
func H_C18_Locks() {
	vrt.RandPromoteBudget(0)
	h := vNewDBEnvU(vUniverse[:1])
	defer h.fs.Cleanup()
	key := vUniverse[0]
	vrt.Assert(h.open(MemstoreSizeBytes(math.MaxUint64), WriteBufferSizeBytes(64), ReadBufferSizeBytes(64)) == nil, "locks/open-no-error")
	db := h.db
	vrt.Watch(&db.memStore, "DB.memStore")
	vrt.Watch(&db.open, "DB.open")
	vrt.Watch(&db.closed, "DB.closed")
	vrt.Watch(&db.wal, "DB.wal")
	vrt.Watch(&db.currentSSTablePath, "DB.currentSSTablePath")
	vrt.Watch(&db.sstableManager.allSSTableReaders, "SSTableManager.allSSTableReaders")
	vrt.Watch(&db.sstableManager.currentReader, "SSTableManager.currentReader")
	vrt.WatchOn(true)
	// natively: the same program runs while other goroutines issue reads and writes on the same handle (the
	// driver builds this replay with the race detector)
	stop := make(chan struct{})
	var wg sync.WaitGroup
	if !vrt.Symbolic() {
		for g := 0; g < 3; g++ {
			wg.Add(1)
			go func(g int) {
				defer wg.Done()
				k := []byte{byte('p' + g)}
				for i := 0; ; i++ {
					select {
					case <-stop:
						return
					default:
					}
					switch i % 3 {
					case 0:
						_ = db.PutBytes(k, []byte{byte(i)})
					case 1:
						_, _ = db.GetBytes(k)
						_, _ = db.GetBytes(key)
					case 2:
						_ = db.DeleteBytes(k)
					}
				}
			}(g)
		}
	}
	steps := 5
	if vrt.Thorough() {
		steps = 6
	}
	nv := 0
	n := vrt.Range("steps", 1, steps)
	for i := 0; i < n; i++ {
		switch vrt.Choose(vrt.K("op", i), 5) {
		case 0:
			nv++
			h.put(key, []byte{vrt.Byte(vrt.K("v", nv))})
		case 1:
			h.del(key)
		case 2:
			_, _ = db.GetBytes(key)
		case 3:
			// rotation inside a client call (what PutBytes does beyond the memstore limit), flush in the background
			db.rwLock.Lock()
			err := db.rotateWalAndFlushMemstore()
			db.rwLock.Unlock()
			vrt.Assert(err == nil, "locks/rotation-no-error")
			h.maybeFlush()
		case 4:
			h.runPending()
			db.compactedMaxSizeBytes = math.MaxUint64
			db.compactionFileThreshold = 1
			h.compactionCycle()
		}
	}
	close(stop)
	wg.Wait()
	h.close()
	vrt.WatchOn(false)
	rep := vrt.WatchReport()
	for _, r := range rep {
		vrt.Note(r)
	}
	vrt.Assert(len(rep) == 0, "locks/every-shared-location-has-a-common-lock")
	vrt.TraceBool("done", true)
	vrt.Reach("locks/end")
}
