//go:build verif

package simpledb

import (
	"errors"
	"math"
	"time"

	"github.com/thomasjungblut/go-sstables/memstore"
	dbproto "github.com/thomasjungblut/go-sstables/simpledb/proto"
	"github.com/thomasjungblut/go-sstables/sstables"
	"github.com/thomasjungblut/go-sstables/vrt"
)

// ---- two clients ----
//
// Symbolically the second client's call runs as one block at a synchronisation point of the first client's call at
// which the first client holds no lock (any other placement is equivalent to one of these, because under a lock
// the second client could not get in). The flusher runs only where the harness scheduler lets it: between calls
// (maybeFlush) and when a client has to wait for it (onBlock).
//
// Natively the same schedule is forced with a gate in front of the table write of the flusher goroutine: the
// memstores handed to the flusher are wrapped so that FlushWithTombstones waits for a token. A token is given
// where the symbolic scheduler ran the flusher. "Writer first, reader arrives while the writer is still inside its
// call" is produced by starting the writer, waiting until it is parked in the hand-off to the stalled flusher,
// starting the reader, waiting until it is parked too, and then giving the token.

type vGatedStore struct {
	memstore.MemStoreI
	gate chan struct{}
}

func (s *vGatedStore) FlushWithTombstones(o ...sstables.WriterOption) error {
	<-s.gate
	return s.MemStoreI.FlushWithTombstones(o...)
}

// enableGate: native runs only. Must be called after open.
func (h *vDB) enableGate() {
	if vrt.Symbolic() {
		return
	}
	h.gate = make(chan struct{})
	h.gateStores()
}

// gateStores wraps the memstore that will be handed to the flusher next.
func (h *vDB) gateStores() {
	if h.gate == nil {
		return
	}
	h.db.rwLock.Lock()
	defer h.db.rwLock.Unlock()
	m := h.db.memStore
	if _, ok := m.writeStore.(*vGatedStore); !ok {
		w := &vGatedStore{MemStoreI: m.writeStore, gate: h.gate}
		if m.readStore == m.writeStore {
			m.readStore = w
		}
		m.writeStore = w
	}
}

func vFlusherStalled() bool {
	for _, st := range vrt.GoroutineStates("vGatedStore).FlushWithTombstones", "flushMemstoreContinuously") {
		if st == "chan receive" {
			return true
		}
	}
	return false
}

func vFlusherSettled() bool {
	if vFlusherStalled() {
		return true
	}
	sts := vrt.GoroutineStates("simpledb.flushMemstoreContinuously")
	if len(sts) == 0 {
		return true
	}
	for _, st := range sts {
		if st != "chan receive" {
			return false
		}
	}
	return true
}

// vClientWaitsForFlusher: a client call is parked in a channel send (the memstore hand-off, wherever the code
// under test does it), or in Close waiting for the flusher.
func vClientWaitsForFlusher() bool {
	for _, st := range vrt.GoroutineStates("vClientCall") {
		if st == "chan send" {
			return true
		}
	}
	for _, st := range vrt.GoroutineStates("vClientCall", "simpledb.(*DB).Close") {
		if st == "chan receive" {
			return true
		}
	}
	return false
}

func vAllClientsParked() bool {
	for _, st := range vrt.GoroutineStates("vClientCall") {
		if !vrt.Parked(st) {
			return false
		}
	}
	return true
}

type vCall struct {
	done chan struct{}
	pnc  any
}

// vClientCall runs f in its own goroutine (the name is what the goroutine dumps are searched for).
func vClientCall(c *vCall, f func()) {
	defer close(c.done)
	defer func() { c.pnc = recover() }()
	f()
}

func (c *vCall) finished() bool {
	select {
	case <-c.done:
		return true
	default:
		return false
	}
}

func (h *vDB) start(f func()) *vCall {
	c := &vCall{done: make(chan struct{})}
	go vClientCall(c, f)
	return c
}

// drive lets the started calls run to completion; whenever all of them are parked and one of them waits for the
// stalled flusher, the flusher gets a token (this is what onBlock does under the engine).
func (h *vDB) drive(calls ...*vCall) {
	deadline := time.Now().Add(30 * time.Second)
	for {
		all := true
		for _, c := range calls {
			if !c.finished() {
				all = false
			}
		}
		if all {
			break
		}
		if time.Now().After(deadline) {
			panic("verif: native client calls did not finish")
		}
		if vFlusherStalled() && vClientWaitsForFlusher() && vAllClientsParked() {
			h.gate <- struct{}{}
		}
		time.Sleep(200 * time.Microsecond)
	}
	for _, c := range calls {
		if c.pnc != nil {
			panic(c.pnc)
		}
	}
	h.gateStores()
}

// waitParkedOrDone: the call has finished or cannot go on by itself.
func (h *vDB) waitParkedOrDone(c *vCall) {
	deadline := time.Now().Add(30 * time.Second)
	for !c.finished() {
		if vAllClientsParked() && len(vrt.GoroutineStates("vClientCall")) > 0 {
			return
		}
		if time.Now().After(deadline) {
			panic("verif: native client call neither finished nor parked")
		}
		time.Sleep(200 * time.Microsecond)
	}
}

// call runs one client call. Under the engine, and in ungated native runs, that is a plain call.
func (h *vDB) call(f func()) {
	if h.gate == nil {
		f()
		return
	}
	h.drive(h.start(f))
}

// flushStep: scheduling point between client calls of a gated harness.
func (h *vDB) flushStep() {
	h.sched++
	c := vrt.Choose(vrt.K("sched", h.sched), 2)
	if vrt.Symbolic() {
		if c == 1 {
			h.runPending()
		}
		return
	}
	if c == 1 && vFlusherStalled() {
		h.gate <- struct{}{}
		deadline := time.Now().Add(30 * time.Second)
		for time.Now().Before(deadline) {
			time.Sleep(200 * time.Microsecond)
			if vFlusherSettled() {
				break
			}
		}
	}
}

// H_C05_TwoClients: a Get of one client overlaps a Put or Delete of another client, which may rotate the memstore
// and wait for the table of the previous rotation; the Get's answer must be explained by one of the two orders, and
// all later reads by the completed calls.
func H_C05_TwoClients() {
	vrt.RandPromoteBudget(0)
	h := vNewDBEnv()
	defer h.fs.Cleanup()
	vrt.Assert(h.open(MemstoreSizeBytes(vrt.U64("opt/memstore")), WriteBufferSizeBytes(64), ReadBufferSizeBytes(64)) == nil, "two/open-no-error")
	h.enableGate()
	steps := 2
	if vrt.Thorough() {
		steps = 3
	}
	nv := 0
	for s := 0; s < steps; s++ {
		k := vUniverse[vrt.Choose(vrt.K("key", s), len(vUniverse))]
		// quick tier: one plain call, then the overlapping pair; thorough: overlapping pairs anywhere
		nOps := 2
		if vrt.Thorough() {
			nOps = 3
		}
		op := vrt.Choose(vrt.K("op", s), nOps)
		if s == steps-1 {
			op = 2
		}
		switch op {
		case 0:
			nv++
			h.put(k, []byte{byte(nv)})
		case 1:
			h.del(k)
		case 2:
			nv++
			h.overlap(s, k, nv)
		}
		h.flushStep()
		h.checkReads("two/reads")
	}
	h.close()
	vrt.TraceBool("done", true)
	vrt.Reach("two/end")
}

// overlap: Get(kg) by client 0 overlapping a Put/Delete by client 3.
func (h *vDB) overlap(s int, kg []byte, nv int) {
	kw := vUniverse[vrt.Choose(vrt.K("wkey", s), len(vUniverse))]
	del := vrt.Choose(vrt.K("wop", s), 2) == 1
	wv := []byte{byte(nv)} // the values are distinct constants: which write a read saw is all that matters
	writer := func() {
		if del {
			vrt.Assert(h.db.DeleteBytes(kw) == nil, "two/delete-no-error")
		} else {
			vrt.Assert(h.db.PutBytes(kw, wv) == nil, "two/put-no-error")
		}
	}
	before := *h.refOf(kg)
	var got []byte
	var err error
	reader := func() { got, err = h.db.GetBytes(kg) }

	if vrt.Symbolic() {
		// either call is the one that is interrupted: the other one runs as a block at one of its lock-free
		// synchronisation points (or after it)
		first, second := reader, writer
		if vrt.Choose(vrt.K("role", s), 2) == 1 {
			first, second = writer, reader
			vrt.Tag("get-runs-inside-the-writer")
		}
		injected, inFirst, n := false, true, 0
		vrt.OnSync(func(kind string) {
			if injected || !inFirst || h.inBackground || vrt.LocksHeld() != 0 {
				return
			}
			n++
			if vrt.Choose(vrt.K("inj", s, n), 2) == 1 {
				injected = true
				vrt.Reach("two/second-call-runs-inside-the-first")
				vrt.RunAs(3, second)
			}
		})
		first()
		inFirst = false
		if !injected {
			second()
		}
		vrt.OnSync(func(kind string) {})
	} else {
		inj := false
		for n := 1; n <= 16; n++ {
			if vrt.Choose(vrt.K("inj", s, n), 2) == 1 {
				inj = true
			}
		}
		switch {
		case inj && vrt.Choose(vrt.K("role", s), 2) == 0:
			// the Get is the interrupted call: it is held right after its table lookup (a wrapper around the
			// stacked reader), the writer is started and queues up for the database lock (or runs, if the Get
			// holds no lock at that point), then the Get is let go
			hold := &vHoldAfterGet{gate: make(chan struct{})}
			h.db.sstableManager.managerLock.Lock()
			hold.SSTableReaderI = h.db.sstableManager.currentReader
			h.db.sstableManager.currentReader = hold
			h.db.sstableManager.managerLock.Unlock()
			r := h.start(reader)
			vWaitUntil(func() bool {
				for _, st := range vrt.GoroutineStates("vHoldAfterGet).Get") {
					if st == "chan receive" {
						return true
					}
				}
				return r.finished()
			})
			w := h.start(writer)
			// the writer is done, or parked (database lock, or hand-off to the stalled flusher - in which case
			// the flusher gets its token and the writer goes on until it is done or parked again)
			vWaitUntil(func() bool {
				if w.finished() {
					return true
				}
				if vFlusherStalled() && vClientWaitsForFlusher() {
					h.gate <- struct{}{}
					return false
				}
				for _, st := range vrt.GoroutineStates("vClientCall", "simpledb.(*DB).") {
					if st == "sync.RWMutex.Lock" || st == "sync.Mutex.Lock" || st == "semacquire" {
						return true
					}
				}
				return false
			})
			close(hold.gate)
			h.drive(w, r)
			h.db.sstableManager.managerLock.Lock()
			if h.db.sstableManager.currentReader == sstables.SSTableReaderI(hold) {
				h.db.sstableManager.currentReader = hold.SSTableReaderI
			}
			h.db.sstableManager.managerLock.Unlock()
		case inj:
			w := h.start(writer)
			h.waitParkedOrDone(w)
			r := h.start(reader)
			h.waitParkedOrDone(r)
			h.drive(w, r)
		default:
			reader()
			h.call(writer)
		}
	}
	r := h.refOf(kw)
	if del {
		r.val, r.present = nil, false
	} else {
		r.val, r.present = wv, true
	}
	after := *h.refOf(kg)
	okBefore := (before.present && err == nil && vrt.EqBytes(got, before.val)) || (!before.present && errors.Is(err, ErrNotFound))
	okAfter := (after.present && err == nil && vrt.EqBytes(got, after.val)) || (!after.present && errors.Is(err, ErrNotFound))
	vrt.Assert(okBefore || okAfter, "two/get-explained-by-one-of-the-two-orders")
}

// H_C05_GetVsCompaction: the reflection of a finished compaction (old readers closed, tables removed, merged table
// swapped in) may start at any synchronisation point of a Get. Where it has to wait for the database lock the Get
// holds, it waits (the attempt is abandoned and repeated later); wherever it gets in, the Get must still answer
// like the map and without error.
func H_C05_GetVsCompaction() {
	vrt.RandPromoteBudget(0)
	h := vNewDBEnvU(vUniverse[:1])
	defer h.fs.Cleanup()
	key := vUniverse[0]
	vrt.Assert(h.open(MemstoreSizeBytes(math.MaxUint64), WriteBufferSizeBytes(64), ReadBufferSizeBytes(64)) == nil, "gc/open-no-error")
	h.put(key, []byte{1})
	h.forceRotation()
	if vrt.Choose("second", 2) == 0 {
		h.put(key, []byte{2})
	} else {
		h.del(key)
	}
	h.forceRotation()
	if vrt.Choose("inmem", 2) == 1 {
		h.put(key, []byte{3})
	}
	h.db.compactedMaxSizeBytes = math.MaxUint64
	h.db.compactionFileThreshold = 1
	var meta *dbproto.CompactionMetadata
	h.inBackground = true
	vrt.RunAs(2, func() {
		m, err := executeCompaction(h.db)
		vrt.Assert(err == nil && m != nil, "gc/compaction-no-error")
		meta = m
	})
	h.inBackground = false
	if meta == nil {
		return
	}
	reflected := false
	reflect := func() {
		vrt.Assert(h.db.sstableManager.reflectCompactionResult(meta) == nil, "gc/reflect-no-error")
	}
	r := h.refOf(key)
	var got []byte
	var err error
	if vrt.Symbolic() {
		n := 0
		vrt.OnSync(func(kind string) {
			if reflected {
				return
			}
			n++
			if vrt.Choose(vrt.K("inj", n), 2) == 1 {
				if vrt.TryRunAs(2, reflect) {
					reflected = true
					if vrt.LocksHeld() > 0 {
						vrt.Reach("gc/reflection-ran-inside-a-lock-section-of-the-get")
					}
				} else {
					vrt.Reach("gc/reflection-had-to-wait-for-the-get")
				}
			}
		})
		got, err = h.db.GetBytes(key)
		vrt.OnSync(func(kind string) {})
	} else {
		inj := false
		for n := 1; n <= 16; n++ {
			if vrt.Choose(vrt.K("inj", n), 2) == 1 {
				inj = true
			}
		}
		if inj {
			// the Get is parked on the manager lock (inside its database read-lock section), the reflection
			// is started, then the manager lock is released
			h.db.sstableManager.managerLock.Lock()
			g := h.start(func() { got, err = h.db.GetBytes(key) })
			h.waitParkedOrDone(g)
			c := h.start(reflect)
			h.waitParkedOrDone(c)
			h.db.sstableManager.managerLock.Unlock()
			<-g.done
			<-c.done
			if g.pnc != nil {
				panic(g.pnc)
			}
			if c.pnc != nil {
				panic(c.pnc)
			}
			reflected = true
		} else {
			got, err = h.db.GetBytes(key)
		}
	}
	if !reflected {
		reflect()
	}
	if r.present {
		vrt.Assert(err == nil && vrt.EqBytes(got, r.val), "gc/get-answers-like-the-map-while-tables-are-replaced")
	} else {
		vrt.Assert(errors.Is(err, ErrNotFound), "gc/get-of-deleted-key-not-found-while-tables-are-replaced")
	}
	h.checkReads("gc/reads-after")
	h.close()
	vrt.TraceBool("done", true)
	vrt.Reach("gc/end")
}

// H_C05_RWMemstore: the memstore pair on its own. For every combination of {absent, value, tombstone} of a key in
// the read store (rotated out, being flushed) and the write store: Get answers from the write store if it knows
// the key (a tombstone there hides everything older) and from the read store otherwise, tombstones included;
// Upsert, Delete, DeleteIfExists and Tombstone take effect in the write store and never touch the read store -
// which is what makes their effect survive the next rotation.
func H_C05_RWMemstore() {
	key := []byte{vrt.Byte("k")}
	build := func(name string) (memstore.MemStoreI, int, []byte) {
		ms := memstore.NewMemStore()
		st := vrt.Choose(name, 3)
		var val []byte
		switch st {
		case 1:
			val = []byte{vrt.Byte(name + ".v")}
			vrt.Assert(ms.Upsert(key, val) == nil, "rw/setup")
		case 2:
			if vrt.Choose(name+".how", 2) == 0 {
				vrt.Assert(ms.Tombstone(key) == nil, "rw/setup")
			} else {
				vrt.Assert(ms.Upsert(key, []byte{7}) == nil && ms.Delete(key) == nil, "rw/setup")
			}
		}
		return ms, st, val
	}
	rs, rState, rVal := build("read")
	ws, wState, wVal := build("write")
	rw := &RWMemstore{readStore: rs, writeStore: ws}
	expect := func(id string, state int, val []byte) {
		got, err := rw.Get(key)
		switch state {
		case 0:
			vrt.Assert(errors.Is(err, memstore.KeyNotFound), id+"/absent-in-both-is-not-found")
		case 1:
			vrt.Assert(err == nil && vrt.EqBytes(got, val), id+"/value")
		case 2:
			vrt.Assert(errors.Is(err, memstore.KeyTombstoned), id+"/tombstone-is-reported-as-tombstone")
		}
	}
	// what the pair must answer: the write store's entry, else the read store's
	state, val := wState, wVal
	if wState == 0 {
		state, val = rState, rVal
	}
	expect("rw/get", state, val)

	readBefore, readErrBefore := rs.Get(key)
	op := vrt.Choose("op", 5)
	switch op {
	case 0:
		val = []byte{vrt.Byte("new")}
		vrt.Assert(rw.Upsert(key, val) == nil, "rw/upsert-no-error")
		state = 1
	case 1:
		vrt.Assert(rw.Delete(key) == nil, "rw/delete-no-error")
		state = 2
	case 2:
		vrt.Assert(rw.DeleteIfExists(key) == nil, "rw/delete-if-exists-no-error")
		state = 2
	case 3:
		vrt.Assert(rw.Tombstone(key) == nil, "rw/tombstone-no-error")
		state = 2
	case 4:
		// no write
	}
	expect("rw/get-after-write", state, val)
	readAfter, readErrAfter := rs.Get(key)
	vrt.Assert(vrt.SameBytes(readBefore, readAfter) && (readErrBefore == nil) == (readErrAfter == nil) &&
		errors.Is(readErrAfter, memstore.KeyTombstoned) == errors.Is(readErrBefore, memstore.KeyTombstoned), "rw/read-store-is-never-written")
	if op < 4 {
		// the effect is in the write store alone: it is what the next rotation hands to the flusher
		got, err := ws.Get(key)
		if state == 1 {
			vrt.Assert(err == nil && vrt.EqBytes(got, val), "rw/write-store-holds-the-new-value")
		} else {
			vrt.Assert(errors.Is(err, memstore.KeyTombstoned), "rw/write-store-holds-the-tombstone")
		}
	}
	vrt.TraceBool("done", true)
	vrt.Reach("rw/end")
}

// H_C05_TwoWriters: two writers on one key overlap (the second call runs as a block at a lock-free
// synchronisation point of the first, or after it). Whichever order they take effect in, the log must say the
// same: what the key reads as now is what it reads as after a kill and recovery, and after a clean restart.
func H_C05_TwoWriters() {
	vrt.RandPromoteBudget(0)
	h := vNewDBEnvU(vUniverse[:1])
	defer h.fs.Cleanup()
	key := vUniverse[0]
	opts := []ExtraOption{MemstoreSizeBytes(vrt.U64("opt/memstore")), WriteBufferSizeBytes(64), ReadBufferSizeBytes(64)}
	vrt.Assert(h.open(opts...) == nil, "writers/open-no-error")
	if vrt.Choose("pre", 2) == 1 {
		h.put(key, []byte{9})
	}
	mk := func(i int) func() {
		if vrt.Choose(vrt.K("w", i, "del"), 2) == 1 {
			return func() { vrt.Assert(h.db.DeleteBytes(key) == nil, "writers/delete-no-error") }
		}
		v := []byte{byte(i)}
		return func() { vrt.Assert(h.db.PutBytes(key, v) == nil, "writers/put-no-error") }
	}
	first, second := mk(1), mk(2)
	if vrt.Symbolic() {
		injected, inFirst, n := false, true, 0
		vrt.OnSync(func(kind string) {
			if injected || !inFirst || h.inBackground || vrt.LocksHeld() != 0 {
				return
			}
			n++
			if vrt.Choose(vrt.K("inj", n), 2) == 1 {
				injected = true
				vrt.Reach("writers/second-call-runs-inside-the-first")
				vrt.RunAs(3, second)
			}
		})
		first()
		inFirst = false
		if !injected {
			second()
		}
		vrt.OnSync(func(kind string) {})
	} else {
		first()
		second()
	}
	// natively the flusher goroutine must be idle before the directory is copied (a copy taken while it writes
	// is not the image of any kill)
	h.runPendingNative()
	live, lerr := h.db.GetBytes(key)
	vrt.Assert(lerr == nil || errors.Is(lerr, ErrNotFound), "writers/read-no-error")
	h.ref[0].val, h.ref[0].present = live, lerr == nil

	img, idir := h.stopImage()
	h2 := &vDB{fs: img, dir: idir, ref: h.ref}
	oerr := h2.open(opts...)
	vrt.Assert(oerr == nil, "writers/open-after-kill-succeeds")
	if oerr == nil {
		h2.checkReads("writers/log-order-is-apply-order/after-kill-and-recovery")
		if !vrt.Symbolic() {
			h2.close()
		}
	}
	if vrt.Symbolic() {
		h.fs.Activate()
		vrt.OnBlock(func(what string) { h.onBlock(what) })
	} else {
		img.Cleanup()
	}
	h.close()
	vrt.Assert(h.open(opts...) == nil, "writers/reopen-no-error")
	h.checkReads("writers/log-order-is-apply-order/after-clean-restart")
	h.close()
	vrt.TraceBool("done", true)
	vrt.Reach("writers/end")
}

// H_C05_FlushVsCompaction: the flusher installs the table of a rotated memstore while a compaction result is being
// reflected (it needs the manager lock only, the reflection holds the database lock). The flush completes at any
// synchronisation point of the compaction cycle at which the manager lock is free (while it is held the flusher
// waits), or afterwards. Nothing may get lost: reads agree with the map right away, after the next rotation (when
// the rotated-out memstore no longer answers) and after a restart.
func H_C05_FlushVsCompaction() {
	vrt.RandPromoteBudget(0)
	h := vNewDBEnvU(vUniverse)
	defer h.fs.Cleanup()
	opts := []ExtraOption{MemstoreSizeBytes(math.MaxUint64), WriteBufferSizeBytes(64), ReadBufferSizeBytes(64)}
	vrt.Assert(h.open(opts...) == nil, "fc/open-no-error")
	a, b := vUniverse[0], vUniverse[1]
	h.put(a, []byte{1})
	h.forceRotation()
	h.put(b, []byte{1})
	h.forceRotation()
	// a third memstore is rotated out, its flush is pending
	if vrt.Choose("third", 2) == 0 {
		h.put(a, []byte{2})
	} else {
		h.del(a)
	}
	if !vrt.Symbolic() {
		h.enableGate()
	}
	h.db.rwLock.Lock()
	err := h.db.rotateWalAndFlushMemstore()
	h.db.rwLock.Unlock()
	vrt.Assert(err == nil, "fc/rotation-no-error")
	h.db.compactedMaxSizeBytes = math.MaxUint64
	h.db.compactionFileThreshold = 1
	if vrt.Symbolic() {
		n := 0
		vrt.OnSync(func(kind string) {
			if h.pending == nil || !vrt.MutexFree(h.db.sstableManager.managerLock) {
				return
			}
			n++
			if vrt.Choose(vrt.K("flush-at", n), 2) == 1 {
				vrt.Reach("fc/flush-completes-inside-the-compaction-cycle")
				a := *h.pending
				h.pending = nil
				vrt.RunAs(1, func() {
					vrt.Assert(executeFlush(h.db, a) == nil, "fc/flush-no-error")
				})
			}
		})
		vrt.RunAs(2, func() { h.compactionCycleBody() })
		vrt.OnSync(func(kind string) {})
		h.runPending()
	} else {
		// natively the most adversarial of these schedules is forced: the merge runs, the reflection is started
		// and held inside its first reader Close (a gated wrapper around the oldest reader), the stalled flusher
		// gets its token and runs as far as it can (on the unchanged tree it stops at the manager lock the
		// reflection holds), then the reflection is let go
		meta, cerr := executeCompaction(h.db)
		vrt.Assert(cerr == nil && meta != nil, "fc/compaction-no-error")
		cg := make(chan struct{})
		h.db.sstableManager.managerLock.Lock()
		h.db.sstableManager.allSSTableReaders[0] = &vGatedReader{SSTableReaderI: h.db.sstableManager.allSSTableReaders[0], gate: cg}
		h.db.sstableManager.managerLock.Unlock()
		c := h.start(func() {
			vrt.Assert(h.db.sstableManager.reflectCompactionResult(meta) == nil, "fc/reflect-no-error")
		})
		vWaitUntil(func() bool {
			for _, st := range vrt.GoroutineStates("vGatedReader).Close") {
				if st == "chan receive" {
					return true
				}
			}
			return c.finished()
		})
		if vFlusherStalled() {
			h.gate <- struct{}{}
		}
		vWaitUntil(func() bool {
			for _, st := range vrt.GoroutineStates("simpledb.flushMemstoreContinuously") {
				if !vrt.Parked(st) {
					return false
				}
			}
			return true
		})
		close(cg)
		<-c.done
		if c.pnc != nil {
			panic(c.pnc)
		}
		vWaitUntil(func() bool { return !vFlusherStalled() && vFlusherSettled() })
	}
	h.checkReads("fc/reads-after-the-cycle")
	// the next rotation replaces the rotated-out memstore: only the tables answer for the third memstore now
	h.put(b, []byte{3})
	h.forceRotationGated()
	h.checkReads("fc/reads-after-the-next-rotation")
	h.close()
	vrt.Assert(h.open(opts...) == nil, "fc/reopen-no-error")
	h.checkReads("fc/reads-after-restart")
	h.close()
	vrt.TraceBool("done", true)
	vrt.Reach("fc/end")
}

// flushStepNow (native, gated): let the stalled flusher write its table and wait until it is idle again.
func (h *vDB) flushStepNow() {
	if h.gate == nil {
		return
	}
	deadline := time.Now().Add(30 * time.Second)
	for time.Now().Before(deadline) {
		if vFlusherStalled() {
			h.gate <- struct{}{}
		}
		time.Sleep(200 * time.Microsecond)
		if !vFlusherStalled() && vFlusherSettled() {
			return
		}
	}
}

// forceRotationGated: forceRotation that also works with the native gate in place.
func (h *vDB) forceRotationGated() {
	if h.gate == nil {
		h.forceRotation()
		return
	}
	h.gateStores()
	h.call(func() {
		h.db.rwLock.Lock()
		err := h.db.rotateWalAndFlushMemstore()
		h.db.rwLock.Unlock()
		vrt.Assert(err == nil, "db/rotation-no-error")
	})
	h.flushStepNow()
}

// vGatedReader (native runs): a table reader whose Close waits for a gate.
type vGatedReader struct {
	sstables.SSTableReaderI
	gate chan struct{}
}

func (r *vGatedReader) Close() error {
	<-r.gate
	return r.SSTableReaderI.Close()
}

func vWaitUntil(cond func() bool) {
	deadline := time.Now().Add(30 * time.Second)
	for !cond() {
		if time.Now().After(deadline) {
			panic("verif: native schedule did not reach the expected point")
		}
		time.Sleep(200 * time.Microsecond)
	}
}

// vHoldAfterGet (native runs): a table reader whose Get returns only after its gate is opened (the lookup itself
// is done before).
type vHoldAfterGet struct {
	sstables.SSTableReaderI
	gate chan struct{}
}

func (r *vHoldAfterGet) Get(key []byte) ([]byte, error) {
	v, err := r.SSTableReaderI.Get(key)
	<-r.gate
	return v, err
}

// H_C05_GetVsFlush: the background flush of the rotated-out memstore may complete at any synchronisation point of
// a Get (the flusher needs no database lock): the Get still answers like the map, whether the newest version of the
// key lives in the memstore being flushed, in an older table or nowhere.
//
// Natively the flusher is stalled in front of its table write (gated memstore), the Get is held right after its
// table lookup (wrapper around the stacked reader), the flusher gets its token and finishes its cycle, the Get is
// let go.
func H_C05_GetVsFlush() {
	vrt.RandPromoteBudget(0)
	h := vNewDBEnvU(vUniverse[:1])
	defer h.fs.Cleanup()
	vrt.Assert(h.open(MemstoreSizeBytes(math.MaxUint64), WriteBufferSizeBytes(64), ReadBufferSizeBytes(64)) == nil, "db/open-no-error")
	h.enableGate()
	k := vUniverse[0]
	if vrt.Choose("older", 2) == 1 {
		h.put(k, []byte{vrt.Byte("v0")})
		h.forceRotationGated()
		vrt.Tag("older-version-in-a-table")
	}
	if vrt.Choose("newest", 2) == 0 {
		h.put(k, []byte{vrt.Byte("v1")})
	} else {
		h.del(k)
	}
	// rotation: the memstore is handed to the flusher, whose cycle is still to come
	h.gateStores()
	h.call(func() {
		h.db.rwLock.Lock()
		err := h.db.rotateWalAndFlushMemstore()
		h.db.rwLock.Unlock()
		vrt.Assert(err == nil, "db/rotation-no-error")
	})
	var got []byte
	var err error
	reader := func() { got, err = h.db.GetBytes(k) }
	if vrt.Symbolic() {
		vrt.Assert(h.pending != nil, "getflush/flush-is-pending")
		h.enableSyncScheduling()
		reader()
		h.autoSched = false
		vrt.OnSync(func(kind string) {})
	} else {
		inside := false
		for n := h.sched + 1; n <= h.sched+24; n++ {
			if vrt.Choose(vrt.K("sync", n), 2) == 1 {
				inside = true
			}
		}
		if inside {
			hold := &vHoldAfterGet{gate: make(chan struct{})}
			h.db.sstableManager.managerLock.Lock()
			hold.SSTableReaderI = h.db.sstableManager.currentReader
			h.db.sstableManager.currentReader = hold
			h.db.sstableManager.managerLock.Unlock()
			r := h.start(reader)
			vWaitUntil(func() bool {
				for _, st := range vrt.GoroutineStates("vHoldAfterGet).Get") {
					if st == "chan receive" {
						return true
					}
				}
				return r.finished()
			})
			h.flushStepNow()
			close(hold.gate)
			h.drive(r)
			if r.pnc != nil {
				panic(r.pnc)
			}
		} else {
			reader()
		}
	}
	vrt.TraceBool("found", err == nil)
	if err == nil && len(got) == 1 {
		vrt.Trace("value", uint64(got[0]))
	}
	r := h.refOf(k)
	if r != nil && r.present {
		vrt.Assert(err == nil && vrt.EqBytes(got, r.val), "getflush/get-of-a-present-key-during-a-flush")
	} else {
		vrt.Assert(errors.Is(err, ErrNotFound), "getflush/get-of-a-deleted-key-during-a-flush")
	}
	h.flushStepNow()
	h.runPending()
	h.checkReads("getflush/reads-after-the-flush")
	if !vrt.Symbolic() {
		h.close()
	}
	vrt.Reach("getflush/end")
}
