//go:build verif

package simpledb

import (
	"math"

	"github.com/thomasjungblut/go-sstables/vrt"
)

// forceRotation does what PutBytes does when the memstore limit is exceeded.
func (h *vDB) forceRotation() {
	h.db.rwLock.Lock()
	err := h.db.rotateWalAndFlushMemstore()
	h.db.rwLock.Unlock()
	vrt.Assert(err == nil, "db/rotation-no-error")
	h.runPending()
}

// dropReadStore rotates once more with an empty memstore: no table is written for it, but the memstore that was
// rotated out last (and still answers reads for the newest table's keys) is gone, so that from here on only the
// tables answer - a wrong order of the table readers is otherwise masked until the next rotation.
func (h *vDB) dropReadStore() {
	h.forceRotation()
}

// vBuildTables writes nT tables through the real client calls: per table each key of the universe is
// untouched, put (symbolic value) or deleted.
func (h *vDB) vBuildTables(nT int) {
	nv := 0
	for t := 0; t < nT; t++ {
		wrote := false
		for ki, r := range h.ref {
			k := r.key
			switch vrt.Choose(vrt.K("t", t, "k", ki), 3) {
			case 1:
				nv++
				h.put(k, []byte{vrt.Byte(vrt.K("v", nv))})
				wrote = true
			case 2:
				h.del(k)
				wrote = true
				vrt.Tag("has-tombstone")
			}
		}
		vrt.Assume(wrote) // an empty memstore writes no table
		h.forceRotation()
	}
}

var vRatios = []float32{0.2, 1.0, 0.0}

// H_C06_Cycle: one compaction cycle over every selectable subset never changes what any key reads as, now,
// after a later flush and after a restart; the selection is a gap-free run in age order.
func H_C06_Cycle() {
	universe := vUniverse[:1]
	nT := 3
	if vrt.Thorough() {
		// one key over four tables (two keys over three tables: H_C06_TwoKeys, in both tiers)
		nT = 4
	}
	vCycle(universe, nT, false)
}

// H_C06_TwoKeys: two keys over three tables (tables with disjoint key ranges, a tombstone in a later table of the
// run for a key that lives in an excluded older table, ...) with the cheaper dimensions fixed: threshold 0, no
// second cycle.
func H_C06_TwoKeys() {
	vCycle(vUniverse, 3, true)
}

func vCycle(universe [][]byte, nT int, reduced bool) {
	vrt.RandPromoteBudget(0)
	h := vNewDBEnvU(universe)
	defer h.fs.Cleanup()
	h.checkLeaks = true
	vrt.Assert(h.open(MemstoreSizeBytes(math.MaxUint64), WriteBufferSizeBytes(64), ReadBufferSizeBytes(64)) == nil, "db/open-no-error")
	h.vBuildTables(nT)
	h.dropReadStore()
	vrt.Assert(h.tables() == nT, "cycle/one-table-per-rotation")
	h.checkReads("cycle/reads-before")

	// compaction settings: which tables are selected is up to the solver
	h.db.compactedMaxSizeBytes = h.chooseMaxSize("maxsize")
	if reduced {
		h.db.compactionRatio = vRatios[vrt.Choose("ratio", 2)]
		h.db.compactionFileThreshold = 0
	} else {
		h.db.compactionRatio = vRatios[vrt.Choose("ratio", len(vRatios))]
		maxThreshold := 2
		if nT > 3 {
			maxThreshold = 1 // four tables: a larger threshold only means that fewer cycles run
		}
		h.db.compactionFileThreshold = vrt.Range("threshold", 0, maxThreshold)
	}

	// selection must be a gap-free run in age order
	act := h.db.sstableManager.candidateTablesForCompaction(h.db.compactedMaxSizeBytes, h.db.compactionRatio)
	all := h.db.sstableManager.allSSTableReaders
	first := -1
	for i, p := range act.pathsToCompact {
		idx := -1
		for j, r := range all {
			if r.BasePath() == p {
				idx = j
			}
		}
		vrt.Assert(idx >= 0, "cycle/selected-table-is-live")
		if i == 0 {
			first = idx
		} else {
			vrt.Assert(idx == first+i, "cycle/selection-is-a-gap-free-run-in-age-order")
		}
	}

	h.compactionCycle()
	h.checkReads("cycle/reads-unchanged-by-compaction")

	// a second cycle with new settings, a later flush and a restart must not change anything either
	if !reduced && h.cycles > 0 && vrt.Choose("second", 2) == 1 {
		h.db.compactedMaxSizeBytes = h.chooseMaxSize("maxsize2")
		h.db.compactionFileThreshold = 0
		h.compactionCycle()
		h.checkReads("cycle/reads-unchanged-by-second-compaction")
	}
	h.close()
	vrt.Assert(h.open(MemstoreSizeBytes(math.MaxUint64), WriteBufferSizeBytes(64), ReadBufferSizeBytes(64)) == nil, "cycle/reopen-no-error")
	h.checkReads("cycle/reads-unchanged-after-restart")
	vrt.TraceBool("done", true)
	h.close()
	vrt.Reach("cycle/end")
}

// H_C06_FourTables: a compaction over the two oldest of four tables (the two newer ones are larger and stay): the
// tables that are not part of the run must keep their order behind the merged one. Two keys: a in every table
// (each newer table disagrees with the older ones), b only in the two newer, larger tables.
func H_C06_FourTables() {
	vrt.RandPromoteBudget(0)
	h := vNewDBEnvU(vUniverse)
	defer h.fs.Cleanup()
	h.checkLeaks = true
	if vrt.Choose("dirspelling", 2) == 1 {
		h.dirSuffix = "/" // the directory given with a trailing separator
	}
	opts := []ExtraOption{MemstoreSizeBytes(math.MaxUint64), WriteBufferSizeBytes(64), ReadBufferSizeBytes(64)}
	vrt.Assert(h.open(opts...) == nil, "four/open-no-error")
	a, b := vUniverse[0], vUniverse[1]
	for t := 0; t < 4; t++ {
		if t > 0 && vrt.Choose(vrt.K("t", t, "del"), 2) == 1 {
			h.del(a)
			vrt.Tag("has-tombstone")
		} else {
			h.put(a, []byte{byte(10 + t)})
		}
		if t >= 2 {
			h.put(b, []byte{byte(20 + t)})
		}
		h.forceRotation()
	}
	h.dropReadStore()
	vrt.Assert(h.tables() == 4, "four/one-table-per-rotation")
	h.checkReads("four/reads-before")
	h.db.compactedMaxSizeBytes = h.chooseMaxSize("maxsize")
	h.db.compactionRatio = vRatios[vrt.Choose("ratio", 2)]
	h.db.compactionFileThreshold = 0
	before := h.tables()
	h.compactionCycle()
	if h.cycles > 0 && h.tables() >= 3 && h.tables() < before {
		vrt.Reach("four/run-of-older-tables-compacted-newer-ones-stay")
	}
	h.checkReads("four/reads-unchanged-by-compaction")
	h.close()
	vrt.Assert(h.open(opts...) == nil, "four/reopen-no-error")
	h.checkReads("four/reads-unchanged-after-restart")
	h.close()
	vrt.TraceBool("done", true)
	vrt.Reach("four/end")
}

// H_C06_TwoCycles: two compaction cycles in a row that both leave out the (larger) oldest table. The first one
// carries a tombstone over from a newer table; a table without tombstones is flushed; the second one merges the
// carried-over tombstone with it. The deleted key, whose value lives in the oldest table, must stay deleted.
func H_C06_TwoCycles() {
	vrt.RandPromoteBudget(0)
	h := vNewDBEnvU(vUniverse)
	defer h.fs.Cleanup()
	h.checkLeaks = true
	opts := []ExtraOption{MemstoreSizeBytes(math.MaxUint64), WriteBufferSizeBytes(64), ReadBufferSizeBytes(64)}
	vrt.Assert(h.open(opts...) == nil, "twocycles/open-no-error")
	a, b := vUniverse[0], vUniverse[1]
	// oldest table: both keys (the largest table)
	h.put(a, []byte{1})
	h.put(b, []byte{1})
	h.forceRotation()
	// two small newer tables; one of them deletes a key of the oldest table
	victim := vUniverse[vrt.Choose("victim", 2)]
	other := a
	if vrt.EqBytes(victim, a) {
		other = b
	}
	if vrt.Choose("order", 2) == 0 {
		h.del(victim)
		h.forceRotation()
		h.put(other, []byte{2})
		h.forceRotation()
	} else {
		h.put(other, []byte{2})
		h.forceRotation()
		h.del(victim)
		h.forceRotation()
	}
	h.dropReadStore()
	// size limit = size of the oldest table: it is never selected by size, the smaller ones are
	h.db.sstableManager.managerLock.RLock()
	limit := h.db.sstableManager.allSSTableReaders[0].MetaData().TotalBytes
	h.db.sstableManager.managerLock.RUnlock()
	h.db.compactedMaxSizeBytes = limit
	h.db.compactionRatio = 2.0 // never by ratio
	h.db.compactionFileThreshold = 0
	h.compactionCycle()
	vrt.Assert(h.cycles == 1 && h.tables() == 2, "twocycles/first-cycle-merged-the-two-newer-tables")
	h.checkReads("twocycles/reads-after-first-cycle")
	h.put(other, []byte{3})
	h.forceRotation()
	h.dropReadStore()
	h.compactionCycle()
	vrt.Assert(h.cycles == 2 && h.tables() == 2, "twocycles/second-cycle-merged-again-without-the-oldest")
	h.checkReads("twocycles/reads-after-second-cycle")
	h.close()
	vrt.Assert(h.open(opts...) == nil, "twocycles/reopen-no-error")
	h.checkReads("twocycles/reads-after-restart")
	h.close()
	vrt.TraceBool("done", true)
	vrt.Reach("twocycles/end")
}
