//go:build verif

package simpledb

import (
	"errors"
	"math"
	"strings"

	"github.com/thomasjungblut/go-sstables/vrt"
)

// ---- crash-point model checking of whole sessions (kill -9 model: every completed file-system call persists,
// the call in flight did not happen) ----

type vAck struct {
	key     []byte
	val     []byte // nil = delete
	started string // journal mark when the call started ("" = before the part under test)
	acked   string // journal mark when the call returned
}

type vSession struct {
	h    *vDB
	acks []vAck
	nv   int
	opts []ExtraOption // for the restart step
}

// restart: clean Close, then Open again in the same process; the kill may come at any call of either.
func (s *vSession) restart(id string) {
	s.h.close()
	vrt.Assert(s.h.open(s.opts...) == nil, id+"/open-after-clean-close-no-error")
	vrt.Reach(id + "/restart")
}

func (s *vSession) put(k []byte) {
	s.nv++
	v := []byte{vrt.Byte(vrt.K("v", s.nv))}
	st := s.h.fs.Mark(vrt.K("s", len(s.acks)))
	s.h.put(k, v)
	s.acks = append(s.acks, vAck{key: k, val: v, started: st, acked: s.h.fs.Mark(vrt.K("a", len(s.acks)))})
}

func (s *vSession) del(k []byte) {
	st := s.h.fs.Mark(vrt.K("s", len(s.acks)))
	s.h.del(k)
	s.acks = append(s.acks, vAck{key: k, started: st, acked: s.h.fs.Mark(vrt.K("a", len(s.acks)))})
}

// vSessionProgram runs a session of client calls, rotations, background flushes and compactions.
func vSessionProgram(s *vSession, steps int, withClose bool) {
	h := s.h
	n := vrt.Range("steps", 1, steps)
	for i := 0; i < n; i++ {
		switch vrt.Choose(vrt.K("op", i), 6) {
		case 5:
			s.restart("crash")
		case 0:
			s.put(h.ref[vrt.Choose(vrt.K("key", i), len(h.ref))].key)
		case 1:
			s.del(h.ref[vrt.Choose(vrt.K("key", i), len(h.ref))].key)
		case 2:
			// rotation as PutBytes does it when the memstore limit is hit; the flush completes later or now
			h.db.rwLock.Lock()
			err := h.db.rotateWalAndFlushMemstore()
			h.db.rwLock.Unlock()
			vrt.Assert(err == nil, "crash/rotation-no-error")
			h.maybeFlush()
			vrt.Reach("crash/rotation")
		case 3:
			h.runPending()
			h.db.compactedMaxSizeBytes = math.MaxUint64
			h.db.compactionFileThreshold = 1
			h.compactionCycle()
		case 4:
			h.runPending()
		}
	}
	if withClose && vrt.Choose("close", 2) == 1 {
		h.close()
		vrt.Reach("crash/clean-close")
	}
}

// vClassifyCrashPoint tags the journal position so that known findings stay narrow.
func vClassifyCrashPoint(fs *vrt.FS, k int) {
	// a table directory that exists at k but whose metadata file has not been written yet
	for i := 0; i < k; i++ {
		op := fs.Journal[i]
		if op.Kind == vrt.OpMkdir && strings.Contains(op.Path, "/"+SSTablePrefix+"_") {
			complete := false
			gone := false
			for j := i + 1; j < k; j++ {
				o := fs.Journal[j]
				if o.Kind == vrt.OpWrite && strings.HasPrefix(o.Path, op.Path+"/") && strings.HasSuffix(o.Path, "meta.pb.bin") {
					complete = true
				}
				if (o.Kind == vrt.OpRmdir && o.Path == op.Path) || (o.Kind == vrt.OpRename && o.Path == op.Path) {
					gone = true
				}
			}
			if !complete && !gone {
				if strings.Contains(op.Path, SSTableCompactionPathPrefix) {
					vrt.Tag("kill-while-compaction-output-incomplete")
				} else {
					vrt.Tag("kill-while-flushed-table-incomplete")
				}
			}
		}
	}
}

// vExpectAfterCrash checks the recovered database against the acknowledged calls: every call acknowledged before
// the kill is in effect, the call in flight may or may not be, nothing else.
func vExpectAfterCrash(id string, fs *vrt.FS, h2 *vDB, universe [][]byte, acks []vAck, k int, exact bool) {
	for _, key := range universe {
		// value after all calls acknowledged at k, and the alternative if the call in flight made it
		var sure, maybe []byte
		hasMaybe := false
		for _, a := range acks {
			if !vrt.EqBytes(a.key, key) {
				continue
			}
			ackedAt, startedAt := -1, -1
			if a.acked != "" {
				ackedAt, startedAt = fs.Index(a.acked), fs.Index(a.started)
			}
			if ackedAt <= k {
				sure = a.val
			} else if startedAt < k && !hasMaybe {
				maybe = a.val
				hasMaybe = true
			}
		}
		got, err := h2.db.GetBytes(key)
		if err != nil && !errors.Is(err, ErrNotFound) {
			vrt.Fail(id + "/read-fails")
			continue
		}
		okSure := (sure == nil && err != nil) || (sure != nil && err == nil && vrt.EqBytes(got, sure))
		okMaybe := hasMaybe && ((maybe == nil && err != nil) || (maybe != nil && err == nil && vrt.EqBytes(got, maybe)))
		if exact {
			vrt.Assert(vrt.Or(okSure, okMaybe), id+"/acknowledged-calls-are-in-effect-and-nothing-else")
		}
	}
}

func vCrashOpts(async bool) []ExtraOption { return vCrashOptsM(async, math.MaxUint64) }

// vCrashOptsM: with a symbolic memstore limit the rotation also happens inside PutBytes, wherever the solver
// places it.
func vCrashOptsM(async bool, memstore uint64) []ExtraOption {
	o := []ExtraOption{MemstoreSizeBytes(memstore), WriteBufferSizeBytes(64), ReadBufferSizeBytes(64)}
	if async {
		o = append(o, EnableAsyncWAL())
	}
	return o
}

// H_C02_Crash: synchronous WAL. Kill at any system-call boundary of a session; reopening succeeds and the
// database holds exactly the acknowledged calls (the one in flight may be present or absent).
func H_C02_Crash() {
	vrt.RandPromoteBudget(0)
	h := vNewDBEnvU(vUniverse[:1])
	defer h.fs.Cleanup()
	base := h.fs.Base()
	h.fs.TraceStart()
	opts := vCrashOptsM(false, vrt.U64("memstore"))
	vrt.Assert(h.open(opts...) == nil, "crash/open-no-error")
	s := &vSession{h: h, opts: opts}
	steps := 3
	if vrt.Thorough() {
		steps = 4
	}
	vSessionProgram(s, steps, true)
	h.runPendingNative()
	h.fs.TraceStop()
	for _, k := range h.fs.CrashPoints("crash") {
		vCheckCrashPoint("crash", h, base, s.acks, k, false)
	}
	vrt.TraceBool("done", true)
	vrt.Reach("crash/end")
}

// H_C02_CompactionCrash: kill at every system-call boundary of a compaction cycle (merge, success flag, removal of
// the inputs, rename into the oldest slot); reopening succeeds and every key reads as before the cycle.
func H_C02_CompactionCrash() {
	vrt.RandPromoteBudget(0)
	// the inputs are removed with os.RemoveAll, file by file in directory-listing order: both orders
	listing := vrt.Choose("listing", 2)
	vrt.ListNewestFirst(listing == 1)
	defer vrt.ListNewestFirst(false)
	h := vNewDBEnvU(vUniverse[:1])
	defer h.fs.Cleanup()
	if vrt.Symbolic() {
		h.fs.WalkReverse = listing == 1
	}
	vrt.Assert(h.open(vCrashOpts(false)...) == nil, "crash/open-no-error")
	s := &vSession{h: h}
	nT := vrt.Range("tables", 2, 3)
	for t := 0; t < nT; t++ {
		if vrt.Choose(vrt.K("t", t), 2) == 0 {
			s.put(vUniverse[0])
		} else {
			s.del(vUniverse[0])
		}
		h.forceRotation()
	}
	for i := range s.acks {
		s.acks[i].started, s.acks[i].acked = "", "" // all acknowledged before the part under test
	}
	h.runPendingNative()
	base := h.fs.Base()
	h.fs.TraceStart()
	h.db.compactedMaxSizeBytes = math.MaxUint64
	h.db.compactionFileThreshold = 1
	h.compactionCycle()
	h.fs.TraceStop()
	vrt.Assume(h.cycles == 1)
	for _, k := range h.fs.CrashPoints("crash") {
		vCheckCrashPoint("compactioncrash", h, base, s.acks, k, false)
	}
	vrt.TraceBool("done", true)
	vrt.Reach("compactioncrash/end")
}

// vCheckCrashPoint builds the image after k journalled calls, runs the real recovery on it and checks the result.
func vCheckCrashPoint(id string, h *vDB, base *vrt.FS, acks []vAck, k int, async bool) {
	vClassifyCrashPoint(h.fs, k)
	img := h.fs.Image(k, base, nil)
	defer img.Cleanup()
	h2 := &vDB{fs: img, dir: h.fs.Rebase(img, h.dir), ref: h.ref}
	oerr := h2.open(vCrashOpts(async)...)
	if oerr != nil {
		vrt.Note(vrt.K("kill after call", k) + ": open: " + oerr.Error())
	}
	vrt.Assert(oerr == nil, id+"/reopen-after-kill-succeeds")
	if oerr == nil {
		vExpectAfterCrash(id, h.fs, h2, vUniverse[:1], acks, k, !async)
		if !vrt.Symbolic() {
			h2.db.Close()
		}
	}
}

// ---- C13: asynchronous WAL ----

// vExpectPrefix: the recovered database equals the reference map after some prefix of the acknowledged calls,
// and that prefix contains every call acknowledged before the last rotation that completed before the kill.
func vExpectPrefix(id string, fs *vrt.FS, h2 *vDB, universe [][]byte, acks []vAck, rotations []string, acksAtRotation []int, k int) {
	// number of calls that must have survived: those made before the last rotation that completed before the kill
	must := 0
	for r, mark := range rotations {
		if fs.Index(mark) <= k && acksAtRotation[r] > must {
			must = acksAtRotation[r]
		}
	}
	// read the recovered state
	type st struct {
		val []byte
		ok  bool
	}
	got := make([]st, len(universe))
	for i, key := range universe {
		v, err := h2.db.GetBytes(key)
		if err != nil && !errors.Is(err, ErrNotFound) {
			vrt.Fail(id + "/read-fails")
			return
		}
		got[i] = st{v, err == nil}
	}
	// is there a prefix length p in [must, len(acks)] whose map equals the recovered state?
	match := false
	for p := must; p <= len(acks); p++ {
		same := true
		for i, key := range universe {
			var val []byte
			present := false
			for _, a := range acks[:p] {
				if vrt.EqBytes(a.key, key) {
					val, present = a.val, a.val != nil
				}
			}
			if present != got[i].ok {
				same = false
			} else if present {
				same = same && vrt.EqBytes(val, got[i].val)
			}
		}
		match = match || same
	}
	if vrt.Symbolic() {
		for i := range universe {
			if got[i].ok {
				vrt.Note(vrt.K("key", i, "present len", len(got[i].val), "must", must, "k", k))
			} else {
				vrt.Note(vrt.K("key", i, "absent must", must, "k", k))
			}
		}
	}
	vrt.Assert(match, id+"/state-is-a-prefix-that-contains-everything-before-the-last-rotation")
}

// H_C13_AsyncCrash: asynchronous WAL. After a kill at any system-call boundary reopening succeeds and the
// database equals the reference map after a prefix of the acknowledged calls; the prefix contains at least
// every call that preceded the last memstore rotation.
func H_C13_AsyncCrash() {
	vrt.RandPromoteBudget(0)
	universe := vUniverse
	h := vNewDBEnvU(universe)
	defer h.fs.Cleanup()
	base := h.fs.Base()
	h.fs.TraceStart()
	opts := vCrashOptsM(true, vrt.U64("memstore"))
	vrt.Assert(h.open(opts...) == nil, "async/open-no-error")
	s := &vSession{h: h, opts: opts}
	var rotations []string
	var acksAtRotation []int
	steps := 3
	if vrt.Thorough() {
		steps = 4
	}
	n := vrt.Range("steps", 1, steps)
	for i := 0; i < n; i++ {
		switch vrt.Choose(vrt.K("op", i), 4) {
		case 3:
			// a clean restart: everything acknowledged before it must survive a later kill
			s.restart("async")
			rotations = append(rotations, h.fs.Mark(vrt.K("rot", len(rotations))))
			acksAtRotation = append(acksAtRotation, len(s.acks))
		case 0:
			s.put(h.ref[vrt.Choose(vrt.K("key", i), len(h.ref))].key)
		case 1:
			s.del(h.ref[vrt.Choose(vrt.K("key", i), len(h.ref))].key)
		case 2:
			h.db.rwLock.Lock()
			err := h.db.rotateWalAndFlushMemstore()
			h.db.rwLock.Unlock()
			vrt.Assert(err == nil, "async/rotation-no-error")
			rotations = append(rotations, h.fs.Mark(vrt.K("rot", len(rotations))))
			acksAtRotation = append(acksAtRotation, len(s.acks))
			h.maybeFlush()
			vrt.Reach("async/rotation")
		}
	}
	h.runPendingNative()
	h.fs.TraceStop()
	for _, k := range h.fs.CrashPoints("crash") {
		vClassifyCrashPoint(h.fs, k)
		img := h.fs.Image(k, base, nil)
		h2 := &vDB{fs: img, dir: h.fs.Rebase(img, h.dir), ref: h.ref}
		oerr := h2.open(vCrashOpts(true)...)
		if oerr != nil {
			vrt.Note(vrt.K("kill after call", k) + ": open: " + oerr.Error())
		}
		vrt.Assert(oerr == nil, "async/reopen-after-kill-succeeds")
		if oerr == nil {
			vExpectPrefix("async", h.fs, h2, universe, s.acks, rotations, acksAtRotation, k)
			if !vrt.Symbolic() {
				h2.db.Close()
			}
		}
		img.Cleanup()
	}
	vrt.TraceBool("done", true)
	vrt.Reach("async/end")
}
