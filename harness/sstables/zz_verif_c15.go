//go:build verif

package sstables

import (
	"errors"

	"github.com/thomasjungblut/go-sstables/recordio"
	"github.com/thomasjungblut/go-sstables/vrt"
	"google.golang.org/protobuf/proto"
)

// failure injectors around the real data / index writers: the failing call returns an error and has no effect
type vFailData struct {
	recordio.WriterI
	fail bool
}

func (w *vFailData) Write(rec []byte) (uint64, error) {
	if w.fail {
		w.fail = false
		return 0, vErrInjected
	}
	return w.WriterI.Write(rec)
}

type vFailIndex struct {
	inner interface {
		Open() error
		Close() error
		Size() uint64
		Write(record proto.Message) (uint64, error)
		WriteSync(record proto.Message) (uint64, error)
	}
	fail bool
}

func (w *vFailIndex) Open() error  { return w.inner.Open() }
func (w *vFailIndex) Close() error { return w.inner.Close() }
func (w *vFailIndex) Size() uint64 { return w.inner.Size() }
func (w *vFailIndex) Write(m proto.Message) (uint64, error) {
	if w.fail {
		w.fail = false
		return 0, vErrInjected
	}
	return w.inner.Write(m)
}
func (w *vFailIndex) WriteSync(m proto.Message) (uint64, error) { return w.inner.WriteSync(m) }

// H_C15_StreamWriter: only strictly ascending keys are accepted, failed writes are rolled back, the closed table
// holds exactly the accepted pairs and its metadata describes them.
func H_C15_StreamWriter() {
	fs := vEnv()
	defer fs.Cleanup()
	dir := fs.Path("t")
	fs.MkdirAll(dir)
	dataComp := []int{recordio.CompressionTypeNone, recordio.CompressionTypeSnappy}[vrt.Choose("datacomp", 2)]
	wbuf := []int{6, 64}[vrt.Choose("wbuf", 2)]
	w, err := NewSSTableStreamWriter(WriteBasePath(dir), WithKeyComparator(vScaledComparator{}),
		WriteBufferSizeBytes(wbuf), DataCompressionType(dataComp))
	vrt.Assert(err == nil && w.Open() == nil, "writer/open-no-error")
	fd := &vFailData{WriterI: w.dataWriter}
	fi := &vFailIndex{inner: w.indexWriter}
	w.dataWriter = fd
	w.indexWriter = fi

	calls := 3
	if vrt.Thorough() {
		calls = 4
	}
	n := vrt.Range("calls", 0, calls)
	var accK, accV [][]byte
	for c := 0; c < n; c++ {
		k := vrt.Bytes(vrt.K("k", c), 1)
		// one symbolic byte | nil | (first two calls) empty but not nil, which is a value and not a nil value
		var v []byte
		kinds := 2
		if c < 2 {
			kinds = 3
		}
		switch vrt.Choose(vrt.K("v", c, "nil"), kinds) {
		case 0:
			v = []byte{vrt.Byte(vrt.K("v", c))}
		case 2:
			v = []byte{}
			vrt.Tag("empty-value")
		}
		fault := vrt.Choose(vrt.K("fault", c), 3) // none | data append fails | index append fails
		fd.fail = fault == 1
		fi.fail = fault == 2
		werr := w.WriteNext(k, v)
		outOfOrder := len(accK) > 0 && vrt.CmpBytes(k, accK[len(accK)-1]) <= 0
		if outOfOrder {
			vrt.Reach("writer/out-of-order-offered")
			vrt.Assert(werr != nil, "writer/key-not-above-last-accepted-is-rejected")
		} else if fault != 0 {
			vrt.Reach("writer/io-failure-injected")
			if len(accK) == 0 {
				vrt.Tag("failure-before-first-accepted")
			}
			vrt.Assert(werr != nil, "writer/io-failure-is-reported")
		} else {
			vrt.Assert(werr == nil, "writer/ascending-key-is-accepted")
			if werr == nil {
				accK = append(accK, k)
				accV = append(accV, v)
			}
		}
		fd.fail, fi.fail = false, false
	}
	vrt.Assert(w.Close() == nil, "writer/close-no-error")

	r, err := NewSSTableReader(ReadBasePath(dir), ReadBufferSizeBytes(64))
	vrt.Assert(err == nil, "writer/table-opens")
	if err != nil {
		return
	}
	sc, err := r.Scan()
	vrt.Assert(err == nil, "writer/scan-no-error")
	ks, vs, e, ok := vDrainTable(sc, len(accK))
	vrt.Assert(ok && errors.Is(e, Done), "writer/scan-ends-with-done")
	vrt.Assert(len(ks) == len(accK), "writer/table-holds-exactly-the-accepted-pairs")
	for i := range ks {
		if i < len(accK) {
			vrt.Assert(vrt.EqBytes(ks[i], accK[i]), "writer/table-keys-are-the-accepted-keys")
			vrt.Assert(vrt.SameBytes(vs[i], accV[i]), "writer/table-values-are-the-accepted-values")
		}
	}
	for i := range accK {
		got, gerr := r.Get(accK[i])
		vrt.Assert(gerr == nil && vrt.SameBytes(got, accV[i]), "writer/accepted-pair-readable-by-key")
	}
	md := r.MetaData()
	nulls := 0
	for _, v := range accV {
		if v == nil {
			nulls++
		}
	}
	vrt.Assert(md.NumRecords == uint64(len(accK)), "writer/metadata-record-count")
	vrt.Assert(md.NullValues == uint64(nulls), "writer/metadata-nil-value-count")
	if len(accK) > 0 {
		vrt.Assert(vrt.EqBytes(md.MinKey, accK[0]), "writer/metadata-smallest-key")
		vrt.Assert(vrt.EqBytes(md.MaxKey, accK[len(accK)-1]), "writer/metadata-largest-key")
	} else {
		vrt.Assert(len(md.MinKey) == 0 && len(md.MaxKey) == 0, "writer/metadata-no-keys-for-empty-table")
	}
	vrt.Assert(md.DataBytes == uint64(fs.FileSize(fs.Path("t/"+DataFileName))), "writer/metadata-data-bytes")
	vrt.Assert(md.IndexBytes == uint64(fs.FileSize(fs.Path("t/"+IndexFileName))), "writer/metadata-index-bytes")
	vrt.Assert(md.TotalBytes == md.DataBytes+md.IndexBytes, "writer/metadata-total-bytes")
	r.Close()
	vrt.Trace("accepted", uint64(len(accK)))
	vrt.Reach("writer/end")
}
