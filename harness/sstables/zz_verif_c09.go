//go:build verif

package sstables

import (
	"errors"

	"github.com/thomasjungblut/go-sstables/recordio"
	"github.com/thomasjungblut/go-sstables/vrt"
)

// H_C09_DamagedData: after any single-byte alteration, truncation or record swap of the data file, a reader never
// returns, without error, a value different from the one written for a key with a non-empty value. The table may
// also hold keys with empty values (zero checksum by format design), for which nothing is required.
func H_C09_DamagedData() { vDamagedData(false) }

// H_C09_Gzip: tables with gzip data compression (quick tier: records swapped or the file cut; the thorough tier of
// H_C09_DamagedData has every compression type with every kind of damage).
func H_C09_Gzip() {
	vGzipOnly = true
	defer func() { vGzipOnly = false }()
	vDamagedData(false)
}

var vGzipOnly bool

// H_C09_Loaders: the same with the other index loaders (skip list, map, disk), on a smaller table shape.
func H_C09_Loaders() { vDamagedData(true) }

func vDamagedData(otherLoaders bool) {
	fs := vEnv()
	defer fs.Cleanup()
	dir := fs.Path("t")
	fs.MkdirAll(dir)
	n := vrt.Range("n", 1, 2)
	maxLen := 2
	li := 0
	if vGzipOnly {
		n, maxLen = 2, 1
	}
	if otherLoaders {
		n, maxLen = 2, 1
		li = 1 + vrt.Choose("loader", 3)
		vrt.Tag("loader-" + vLoaderNames[li])
	}
	keys := make([][]byte, n)
	vals := make([][]byte, n)
	nonEmpty := 0
	for i := range keys {
		keys[i] = []byte{byte('a' + i)}
		l := vrt.Range(vrt.K("v", i, "len"), 0, maxLen)
		vals[i] = vrt.BytesN(vrt.K("v", i), l)
		if l == 0 {
			vrt.Tag("has-empty-value")
			vrt.Reach("damage/table-with-empty-value")
		} else {
			nonEmpty++
		}
	}
	vrt.Assume(nonEmpty > 0)
	dataComp := recordio.CompressionTypeNone
	if !otherLoaders {
		dataComp = []int{recordio.CompressionTypeNone, recordio.CompressionTypeSnappy}[vrt.Choose("datacomp", 2)]
	}
	if vrt.Thorough() {
		dataComp = vComps[vrt.Choose("datacomp2", 4)]
	}
	if vGzipOnly {
		dataComp = recordio.CompressionTypeGZIP
	}
	vWriteTable(dir, keys, vals, dataComp, recordio.CompressionTypeNone, 64)

	dp := fs.Path("t/" + DataFileName)
	data := fs.ReadFile(dp)
	dmgKind := vrt.Choose("damage", 3)
	if vGzipOnly {
		vrt.Assume(dmgKind != 0)
	}
	switch dmgKind {
	case 0:
		pos := vrt.RangeClamp("pos", 0, len(data)-1)
		nb := vrt.Byte("newbyte")
		vrt.Assume(nb != data[pos])
		dmg := append([]byte{}, data...)
		dmg[pos] = nb
		fs.WriteFile(dp, dmg)
		if pos < recordio.FileHeaderSizeBytes {
			vrt.Reach("damage/file-header-byte")
		} else {
			vrt.Reach("damage/record-byte")
		}
	case 1:
		cut := vrt.RangeClamp("cut", 0, len(data)-1)
		fs.WriteFile(dp, data[:cut])
		vrt.Reach("damage/truncated")
	case 2:
		vrt.Assume(n == 2)
		// swap the two records: find the start of the second record through the index
		ir, err := NewSSTableReader(ReadBasePath(dir), ReadBufferSizeBytes(64), ReadIndexLoader(vLoader(0, 64)))
		vrt.Assert(err == nil, "damage/undamaged-table-opens")
		iv, _ := ir.(*SSTableReader).index.Get(keys[1])
		ir.Close()
		off := int(iv.Offset)
		sw := append([]byte{}, data[:recordio.FileHeaderSizeBytes]...)
		sw = append(sw, data[off:]...)
		sw = append(sw, data[recordio.FileHeaderSizeBytes:off]...)
		// the two values must differ for the swap to be damage at all
		vrt.Assume(!vrt.EqBytes(vals[0], vals[1]))
		fs.WriteFile(dp, sw)
		vrt.Reach("damage/records-swapped")
	}

	verify := vrt.Choose("verify", 3)
	var r SSTableReaderI
	var err error
	if verify == 1 {
		r, err = NewSSTableReader(ReadBasePath(dir), ReadBufferSizeBytes(64), ReadIndexLoader(vLoader(li, 64)), SkipHashCheckOnLoad(), EnableHashCheckOnReads())
	} else if verify == 2 {
		// the two options are independent switches: their order means nothing
		r, err = NewSSTableReader(ReadBasePath(dir), ReadBufferSizeBytes(64), ReadIndexLoader(vLoader(li, 64)), EnableHashCheckOnReads(), SkipHashCheckOnLoad())
	} else {
		r, err = NewSSTableReader(ReadBasePath(dir), ReadBufferSizeBytes(64), ReadIndexLoader(vLoader(li, 64)))
	}
	vrt.TraceBool("open.err", err != nil)
	if err != nil {
		vrt.Reach("damage/detected-at-open")
		vrt.Reach("damage/end")
		return
	}
	for round := 0; round < 2; round++ { // a second lookup of a key must not fare better than the first
		for i := range keys {
			got, gerr := r.Get(keys[i])
			if gerr == nil {
				vrt.Assert(len(vals[i]) == 0 || vrt.EqBytes(got, vals[i]), "damage/get-never-returns-different-value")
			} else {
				vrt.Reach("damage/detected-at-get")
			}
		}
	}
	sc, serr := r.Scan()
	if serr == nil {
		for i := 0; i <= n; i++ {
			k, v, e := sc.Next()
			if e != nil {
				if !errors.Is(e, Done) {
					vrt.Reach("damage/detected-at-scan")
				}
				break
			}
			for j := range keys {
				if vrt.EqBytes(k, keys[j]) {
					vrt.Assert(len(vals[j]) == 0 || vrt.EqBytes(v, vals[j]), "damage/scan-never-returns-different-value")
				}
			}
		}
	}
	it, rerr := r.ScanStartingAt(keys[0])
	if rerr == nil {
		for i := 0; i <= n; i++ {
			k, v, e := it.Next()
			if e != nil {
				break
			}
			for j := range keys {
				if vrt.EqBytes(k, keys[j]) {
					vrt.Assert(len(vals[j]) == 0 || vrt.EqBytes(v, vals[j]), "damage/index-scan-never-returns-different-value")
				}
			}
		}
	}
	it3, rerr3 := r.ScanRange(keys[0], keys[n-1])
	if rerr3 == nil {
		for i := 0; i <= n; i++ {
			k, v, e := it3.Next()
			if e != nil {
				break
			}
			for j := range keys {
				if vrt.EqBytes(k, keys[j]) {
					vrt.Assert(len(vals[j]) == 0 || vrt.EqBytes(v, vals[j]), "damage/range-scan-never-returns-different-value")
				}
			}
		}
	}
	r.Close()
	vrt.Reach("damage/end")
}
