//go:build verif

package sstables

import (
	"errors"

	"github.com/thomasjungblut/go-sstables/recordio"
	"github.com/thomasjungblut/go-sstables/skiplist"
	"github.com/thomasjungblut/go-sstables/vrt"
)

func vEnv() *vrt.FS {
	fs := vrt.NewFS()
	vrt.InstallCodec()
	vrt.InstallBloom()
	recordio.VInstallContractCompressors()
	return fs
}

var vComps = []int{recordio.CompressionTypeNone, recordio.CompressionTypeSnappy, recordio.CompressionTypeGZIP, recordio.CompressionTypeLzw}

// vKeys draws n strictly ascending keys. Only the first can be the empty key; lengths 0..maxLen.
func vKeys(n, maxLen int) [][]byte {
	keys := make([][]byte, n)
	for i := range keys {
		lo := 1
		if i == 0 {
			lo = 0
		}
		l := vrt.Range(vrt.K("k", i, "len"), lo, maxLen)
		keys[i] = vrt.BytesN(vrt.K("k", i), l)
		if i > 0 {
			vrt.Assume(vrt.CmpBytes(keys[i-1], keys[i]) < 0)
		}
		if l == 0 {
			vrt.Tag("empty-key-present")
		}
	}
	return keys
}

func vVals(n, maxLen int) [][]byte {
	vals := make([][]byte, n)
	for i := range vals {
		vals[i] = vrt.BytesOrNil(vrt.K("v", i), maxLen)
	}
	return vals
}

func vWriteTable(dir string, keys, vals [][]byte, dataComp, indexComp, wbuf int, extra ...WriterOption) {
	opts := append([]WriterOption{WriteBasePath(dir), WithKeyComparator(skiplist.BytesComparator{}),
		WriteBufferSizeBytes(wbuf), DataCompressionType(dataComp), IndexCompressionType(indexComp)}, extra...)
	w, err := NewSSTableStreamWriter(opts...)
	vrt.Assert(err == nil, "table/new-writer-no-error")
	vrt.Assert(w.Open() == nil, "table/writer-open-no-error")
	for i := range keys {
		vrt.Assert(w.WriteNext(keys[i], vals[i]) == nil, "table/write-next-no-error")
	}
	vrt.Assert(w.Close() == nil, "table/writer-close-no-error")
}

func vLoader(which int, rbuf int) IndexLoader {
	switch which {
	case 0:
		return &SliceKeyIndexLoader{ReadBufferSize: rbuf}
	case 1:
		return &SkipListIndexLoader{KeyComparator: skiplist.BytesComparator{}, ReadBufferSize: rbuf}
	case 2:
		return &MapKeyIndexLoader[[4]byte]{ReadBufferSize: rbuf, Mapper: &Byte4KeyMapper{}}
	}
	return &DiskIndexLoader{}
}

var vLoaderNames = []string{"slice", "skiplist", "map", "disk"}

// vCheckTableScan drains it and compares with the written pairs restricted to [lo, hi].
func vCheckTableScan(id string, it SSTableIteratorI, keys, vals [][]byte, lo, hi []byte, useLo, useHi bool) {
	ks, vs, e, ok := vDrainTable(it, len(keys))
	vrt.Assert(ok && errors.Is(e, Done), id+"/ends-with-done")
	vrt.Trace("scanned", uint64(len(ks)))
	want := 0
	for i := range keys {
		if useLo && vrt.CmpBytes(keys[i], lo) < 0 {
			continue
		}
		if useHi && vrt.CmpBytes(keys[i], hi) > 0 {
			continue
		}
		if want < len(ks) {
			vrt.Assert(vrt.EqBytes(ks[want], keys[i]), id+"/key-in-ascending-order")
			vrt.Assert(vrt.SameBytes(vs[want], vals[i]), id+"/value-unchanged")
		}
		want++
	}
	vrt.Assert(want == len(ks), id+"/exactly-the-matching-pairs")
}

// H_C03_Table*: write a table through the real stream writer into the model file system, open it with the real
// reader under one index loader, and compare every query with the sorted map of the written pairs.
func H_C03_TableSlice()    { vTableHarness(0) }
func H_C03_TableSkipList() { vTableHarness(1) }
func H_C03_TableMap()      { vTableHarness(2) }
func H_C03_TableDisk()     { vTableHarness(3) }

func vTableHarness(li int) {
	fs := vEnv()
	defer fs.Cleanup()
	dir := fs.Path("t")
	fs.MkdirAll(dir)
	nMax, kLen, vLen := 2, 1, 1
	// thorough tier: one dimension at a time is raised (all of them at once is out of reach: more than 40
	// minutes per loader and solver time-outs) - 0: three keys; 1: keys of up to two bytes; 2: every
	// compression pair with a small write buffer, values nil / empty / one byte
	shape := -1
	if vrt.Thorough() {
		shape = vrt.Choose("shape", 3)
		switch shape {
		case 0:
			nMax = 3
		case 1:
			kLen = 2
		}
	}
	n := vrt.Range("n", 0, nMax)
	keys := vKeys(n, kLen)
	vals := make([][]byte, n)
	for i := range vals {
		if shape == 2 {
			vals[i] = vrt.BytesOrNil(vrt.K("v", i), vLen)
		} else if vrt.Choose(vrt.K("v", i, "nil"), 2) == 0 {
			vals[i] = vrt.BytesN(vrt.K("v", i), 1)
		}
	}
	dataComp := recordio.CompressionTypeSnappy
	indexComp := recordio.CompressionTypeNone
	wbuf := 64
	if shape == 2 {
		dataComp = vComps[vrt.Choose("datacomp", 4)]
		indexComp = vComps[vrt.Choose("indexcomp", 2)]
		wbuf = 5
	}
	// the bloom filter sizing hint is only a hint: a table may hold more records than announced
	var extra []WriterOption
	if vrt.Choose("bloomhint", 2) == 1 {
		extra = append(extra, BloomExpectedNumberOfElements(1))
		if n > 1 {
			vrt.Reach("table/more-records-than-the-bloom-hint")
		}
	}
	vWriteTable(dir, keys, vals, dataComp, indexComp, wbuf, extra...)
	pLen := kLen
	vrt.Tag("loader-" + vLoaderNames[li])
	r, err := NewSSTableReader(ReadBasePath(dir), ReadBufferSizeBytes(16), ReadIndexLoader(vLoader(li, 16)))
	vrt.Assert(err == nil, "table/open-no-error")
	if err != nil {
		return
	}
	md := r.MetaData()
	vrt.Assert(md.NumRecords == uint64(n), "table/metadata-record-count")

	switch vrt.Choose("query", 4) {
	case 0:
		probe := vrt.Bytes("probe", pLen)
		want := -1
		for i := range keys {
			if vrt.EqBytes(keys[i], probe) {
				want = i
			}
		}
		c, cerr := r.Contains(probe)
		got, gerr := r.Get(probe)
		vrt.Assert(cerr == nil, "table/contains-no-error")
		vrt.TraceBool("contains", c)
		vrt.TraceBool("get.err", gerr != nil)
		if want >= 0 {
			vrt.Reach("table/probe-written")
			vrt.Assert(c, "table/written-key-is-contained")
			vrt.Assert(gerr == nil, "table/written-key-get-no-error")
			vrt.Assert(vrt.SameBytes(got, vals[want]), "table/written-key-value-unchanged")
		} else {
			vrt.Reach("table/probe-unwritten")
			vrt.Assert(!c, "table/unwritten-key-not-contained")
			vrt.Assert(errors.Is(gerr, NotFound), "table/unwritten-key-not-found")
		}
	case 1:
		it, err := r.Scan()
		vrt.Assert(err == nil, "table/scan-no-error")
		vCheckTableScan("table/scan", it, keys, vals, nil, nil, false, false)
	case 2:
		lo := vrt.Bytes("lo", pLen)
		it, err := r.ScanStartingAt(lo)
		vrt.Assert(err == nil, "table/scan-starting-at-no-error")
		vCheckTableScan("table/scan-starting-at", it, keys, vals, lo, nil, true, false)
	case 3:
		lo := vrt.Bytes("lo", pLen)
		hi := vrt.Bytes("hi", pLen)
		it, err := r.ScanRange(lo, hi)
		if vrt.CmpBytes(lo, hi) > 0 {
			vrt.Assert(err != nil, "table/scan-range-lower-above-upper-rejected")
		} else {
			vrt.Assert(err == nil, "table/scan-range-no-error")
			vCheckTableScan("table/scan-range", it, keys, vals, lo, hi, true, true)
		}
	}
	// whatever query ran, the reader still knows every written key afterwards (a query must not disturb the
	// reader's state: caches, reused entries)
	for i := range keys {
		c, cerr := r.Contains(keys[i])
		got, gerr := r.Get(keys[i])
		vrt.Assert(cerr == nil && c, "table/written-key-still-contained-after-the-query")
		vrt.Assert(gerr == nil && vrt.SameBytes(got, vals[i]), "table/written-key-still-readable-after-the-query")
	}
	vrt.Assert(r.Close() == nil, "table/close-no-error")
	vrt.Reach("table/end")
}

// VEnv is the exported environment set-up for harnesses of other packages that write or read tables.
func VEnv() *vrt.FS { return vEnv() }

// H_C03_SliceIndexKernel: the in-memory slice index (binary search, the three iterators) directly, with more keys
// than the end-to-end harness can afford: n ≤ 4 [5] strictly ascending symbolic keys of length 0..2, symbolic
// probe and bounds, against a linear scan.
func H_C03_SliceIndexKernel() {
	nMax := 4
	if vrt.Thorough() {
		nMax = 5
	}
	n := vrt.Range("n", 0, nMax)
	keys := vKeys(n, 2)
	idx := &SliceKeyIndex{}
	for i, k := range keys {
		kk := k
		if len(kk) == 0 {
			kk = nil // as decoded from the index file
		}
		idx.index = append(idx.index, sliceKey{IndexVal{Offset: uint64(100 + i), Checksum: uint64(i)}, kk})
	}
	drain := func(it skiplistIter) []uint64 {
		var out []uint64
		for i := 0; i <= n; i++ {
			_, iv, err := it.Next()
			if err != nil {
				return out
			}
			out = append(out, iv.Offset)
		}
		vrt.Fail("sliceindex/iterator-terminates")
		return out
	}
	expect := func(id string, lo, hi []byte, useLo, useHi bool, got []uint64) {
		want := 0
		for i, k := range keys {
			if useLo && vrt.CmpBytes(k, lo) < 0 {
				continue
			}
			if useHi && vrt.CmpBytes(k, hi) > 0 {
				continue
			}
			if want < len(got) {
				vrt.Assert(got[want] == uint64(100+i), id+"/entries-in-ascending-order")
			}
			want++
		}
		vrt.Assert(want == len(got), id+"/exactly-the-matching-entries")
	}
	switch vrt.Choose("query", 4) {
	case 0:
		probe := vrt.Bytes("probe", 2)
		want := -1
		for i, k := range keys {
			if vrt.EqBytes(k, probe) {
				want = i
			}
		}
		iv, err := idx.Get(probe)
		c, _ := idx.Contains(probe)
		if want >= 0 {
			vrt.Assert(err == nil && iv.Offset == uint64(100+want), "sliceindex/get-present")
			vrt.Assert(c, "sliceindex/contains-present")
		} else {
			vrt.Assert(err != nil, "sliceindex/get-absent")
			vrt.Assert(!c, "sliceindex/contains-absent")
		}
	case 1:
		it, err := idx.Iterator()
		vrt.Assert(err == nil, "sliceindex/iterator-no-error")
		expect("sliceindex/full", nil, nil, false, false, drain(it))
	case 2:
		lo := vrt.Bytes("lo", 2)
		it, err := idx.IteratorStartingAt(lo)
		vrt.Assert(err == nil, "sliceindex/starting-at-no-error")
		expect("sliceindex/starting-at", lo, nil, true, false, drain(it))
	case 3:
		lo := vrt.Bytes("lo", 2)
		hi := vrt.Bytes("hi", 2)
		it, err := idx.IteratorBetween(lo, hi)
		if vrt.CmpBytes(lo, hi) > 0 {
			vrt.Assert(err != nil, "sliceindex/between-lower-above-upper-rejected")
		} else {
			vrt.Assert(err == nil, "sliceindex/between-no-error")
			expect("sliceindex/between", lo, hi, true, true, drain(it))
		}
	}
	vrt.Trace("n", uint64(n))
	vrt.Reach("sliceindex/end")
}

type skiplistIter interface {
	Next() ([]byte, IndexVal, error)
}

var vLongKeyLens = []int{1, 7, 33, 129, 250}

// H_C03_BloomLongKeys: no bloom-filter false negative for keys of very different lengths: the write side and the
// read side must hash the same bytes with the same function. (The hash of symbolic bytes is an injective
// uninterpreted function: equal results iff equal inputs, so any difference in what is hashed shows.)
func H_C03_BloomLongKeys() {
	fs := vEnv()
	defer fs.Cleanup()
	dir := fs.Path("t")
	fs.MkdirAll(dir)
	l1 := vLongKeyLens[vrt.Choose("len1", len(vLongKeyLens))]
	l2 := vLongKeyLens[vrt.Choose("len2", len(vLongKeyLens))]
	// long keys are concrete except for their last byte (everything the filter could drop or add is visible in
	// the real fnv hash of concrete bytes; the symbolic last byte keeps the tail in play)
	mk := func(name string, l int, first byte) []byte {
		k := make([]byte, l)
		for i := range k {
			k[i] = byte(1 + (i*7)%120)
		}
		k[0] = first
		k[l-1] = vrt.Byte(name)
		return k
	}
	k1 := mk("k1", l1, 'a')
	k2 := mk("k2", l2, 'b')
	if l1 == 1 {
		k1[0] = 'a'
	}
	if l2 == 1 {
		k2[0] = 'b'
	}
	vrt.Assume(vrt.CmpBytes(k1, k2) < 0)
	keys := [][]byte{k1, k2}
	vals := [][]byte{{1}, {2}}
	vWriteTable(dir, keys, vals, recordio.CompressionTypeSnappy, recordio.CompressionTypeNone, 4096)
	li := vrt.Choose("loader", 2) // slice (default) and disk: the filter is in front of every loader
	if li == 1 {
		li = 3
	}
	r, err := NewSSTableReader(ReadBasePath(dir), ReadBufferSizeBytes(4096), ReadIndexLoader(vLoader(li, 4096)))
	vrt.Assert(err == nil, "bloom/open-no-error")
	if err != nil {
		return
	}
	for i := range keys {
		c, cerr := r.Contains(keys[i])
		vrt.Assert(cerr == nil && c, "bloom/written-key-is-contained-whatever-its-length")
		got, gerr := r.Get(keys[i])
		vrt.Assert(gerr == nil && vrt.EqBytes(got, vals[i]), "bloom/written-key-readable")
	}
	r.Close()
	vrt.Trace("l1", uint64(l1))
	vrt.Reach("bloom/end")
}

// H_C03_MapPadding: the map index loader maps keys to fixed-width arrays; keys that differ only by trailing zero
// bytes ("x", "x\x00", "x\x00\x00") and keys that share a prefix must stay distinct.
func H_C03_MapPadding() {
	fs := vEnv()
	defer fs.Cleanup()
	dir := fs.Path("t")
	fs.MkdirAll(dir)
	x := vrt.Byte("x")
	var keys [][]byte
	switch vrt.Choose("family", 2) {
	case 0:
		keys = [][]byte{{x}, {x, 0}, {x, 0, 0}}
	default:
		keys = [][]byte{{x, 1, 2}, {x, 1, 2, 0}, {x, 1, 2, 3}} // (the 4-byte mapper refuses longer keys by contract)
	}
	// one of the three is left out of the table
	absent := vrt.Choose("absent", 3)
	var wk, wv [][]byte
	for i, k := range keys {
		if i != absent {
			wk = append(wk, k)
			wv = append(wv, []byte{byte(10 + i)})
		}
	}
	vWriteTable(dir, wk, wv, recordio.CompressionTypeSnappy, recordio.CompressionTypeNone, 64)
	r, err := NewSSTableReader(ReadBasePath(dir), ReadBufferSizeBytes(16), ReadIndexLoader(vLoader(2, 16)))
	vrt.Assert(err == nil, "mappadding/open-no-error")
	for i, k := range keys {
		c, cerr := r.Contains(k)
		got, gerr := r.Get(k)
		if i == absent {
			vrt.Assert(cerr == nil && !c, "mappadding/absent-key-not-contained")
			vrt.Assert(errors.Is(gerr, NotFound), "mappadding/absent-key-not-found")
		} else {
			vrt.Assert(cerr == nil && c, "mappadding/written-key-is-contained")
			vrt.Assert(gerr == nil && vrt.EqBytes(got, []byte{byte(10 + i)}), "mappadding/written-key-has-its-own-value")
		}
	}
	r.Close()
	vrt.TraceBool("done", true)
	vrt.Reach("mappadding/end")
}

// vFirstByteMapper is a user-supplied mapper that is not injective: every key goes to the slot of its first byte.
type vFirstByteMapper struct{}

func (vFirstByteMapper) MapBytes(data []byte) [1]byte {
	if len(data) == 0 {
		return [1]byte{}
	}
	return [1]byte{data[0]}
}

// H_C03_MapLossyMapper: the map index with a mapper under which several written keys of the same length share a
// slot still answers Get and Contains for each of them, and for an absent key of that slot and length.
func H_C03_MapLossyMapper() {
	fs := vEnv()
	defer fs.Cleanup()
	dir := fs.Path("t")
	fs.MkdirAll(dir)
	x := vrt.Byte("x")
	keys := [][]byte{{x, 1}, {x, 2}, {x, 3}}
	absent := vrt.Choose("absent", 4) // 3: all three are written
	var wk, wv [][]byte
	for i, k := range keys {
		if i != absent {
			wk = append(wk, k)
			wv = append(wv, []byte{byte(10 + i)})
		}
	}
	vWriteTable(dir, wk, wv, recordio.CompressionTypeSnappy, recordio.CompressionTypeNone, 64)
	r, err := NewSSTableReader(ReadBasePath(dir), ReadBufferSizeBytes(16),
		ReadIndexLoader(&MapKeyIndexLoader[[1]byte]{ReadBufferSize: 16, Mapper: vFirstByteMapper{}}))
	vrt.Assert(err == nil, "lossymapper/open-no-error")
	for i, k := range keys {
		c, cerr := r.Contains(k)
		got, gerr := r.Get(k)
		if i == absent {
			vrt.Assert(cerr == nil && !c, "lossymapper/absent-key-not-contained")
			vrt.Assert(errors.Is(gerr, NotFound), "lossymapper/absent-key-not-found")
		} else {
			vrt.Assert(cerr == nil && c, "lossymapper/written-key-is-contained")
			vrt.Assert(gerr == nil && vrt.EqBytes(got, []byte{byte(10 + i)}), "lossymapper/written-key-has-its-own-value")
		}
	}
	r.Close()
	vrt.TraceBool("done", true)
	vrt.Reach("lossymapper/end")
}
