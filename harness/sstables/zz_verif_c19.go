//go:build verif

package sstables

import (
	"runtime/debug"

	"github.com/thomasjungblut/go-sstables/recordio"
	rProto "github.com/thomasjungblut/go-sstables/recordio/proto"
	"github.com/thomasjungblut/go-sstables/sstables/proto"
	"github.com/thomasjungblut/go-sstables/vrt"
)

// H_C19_Readers: closing a table reader releases everything it opened, including scanners created from it
// (complete and abandoned); recordio readers and writers release their file.
func H_C19_Readers() {
	if !vrt.Symbolic() {
		// a leaked *os.File would be closed by its finalizer at the next garbage collection
		defer debug.SetGCPercent(debug.SetGCPercent(-1))
	}
	fs := vEnv()
	defer fs.Cleanup()
	dir := fs.Path("t")
	fs.MkdirAll(dir)
	keys := [][]byte{{'a'}, {'b'}}
	vals := [][]byte{{vrt.Byte("v0")}, {vrt.Byte("v1")}}
	if vrt.Choose("format", 2) == 0 {
		vWriteTable(dir, keys, vals, recordio.CompressionTypeSnappy, recordio.CompressionTypeNone, 64)
	} else {
		// a table in the first layout (values wrapped in a message, no metadata, no checksums) is still a table
		vWriteLegacyTable(dir, keys, vals)
		vrt.Reach("readers/legacy-table")
	}
	vrt.Assert(fs.OpenCount() == 0, "readers/writer-close-releases-everything")

	li := vrt.Choose("loader", 4)
	r, err := NewSSTableReader(ReadBasePath(dir), ReadBufferSizeBytes(16), ReadIndexLoader(vLoader(li, 16)))
	vrt.Assert(err == nil, "readers/open-no-error")
	scans := vrt.Range("scans", 0, 2)
	for i := 0; i < scans; i++ {
		switch vrt.Choose(vrt.K("scan", i), 3) {
		case 0:
			it, err := r.Scan()
			vrt.Assert(err == nil, "readers/scan-no-error")
			// complete or abandoned after one step
			steps := vrt.Range(vrt.K("steps", i), 0, 3)
			for j := 0; j < steps; j++ {
				it.Next()
			}
			vrt.Reach("readers/full-scan")
		case 1:
			it, err := r.ScanStartingAt(keys[0])
			vrt.Assert(err == nil, "readers/scan-starting-at-no-error")
			it.Next()
		case 2:
			it, err := r.ScanRange(keys[0], keys[1])
			vrt.Assert(err == nil, "readers/scan-range-no-error")
			it.Next()
		}
	}
	_, _ = r.Get(keys[1])
	vrt.Trace("open.before.close", uint64(fs.OpenCount()))
	vrt.Assert(r.Close() == nil, "readers/close-no-error")
	vrt.Assert(fs.OpenCount() == 0, "readers/close-releases-everything-including-scanners")

	// recordio reader and mmap reader
	p := fs.Path("t/" + DataFileName)
	fr, err := recordio.NewFileReader(recordio.ReaderPath(p), recordio.ReaderBufferSizeBytes(16))
	vrt.Assert(err == nil && fr.Open() == nil, "readers/recordio-open")
	fr.ReadNext()
	vrt.Assert(fr.Close() == nil && fs.OpenCount() == 0, "readers/recordio-reader-close-releases-file")
	mr, err := recordio.NewMemoryMappedReaderWithPath(p)
	vrt.Assert(err == nil && mr.Open() == nil, "readers/mmap-open")
	vrt.Assert(mr.Close() == nil && fs.OpenCount() == 0, "readers/mmap-reader-close-releases-mapping")
	vrt.Reach("readers/end")
}

// vWriteLegacyTable writes the keys and values in the layout of the first releases: index entries without
// checksums, every value wrapped in a DataEntry message, no metadata file, no filter.
func vWriteLegacyTable(dir string, keys, vals [][]byte) {
	dw, err := rProto.NewWriter(rProto.Path(dir+"/"+DataFileName), rProto.WriteBufferSizeBytes(64))
	vrt.Assert(err == nil && dw.Open() == nil, "legacy/data-writer-opens")
	iw, err := rProto.NewWriter(rProto.Path(dir+"/"+IndexFileName), rProto.WriteBufferSizeBytes(64))
	vrt.Assert(err == nil && iw.Open() == nil, "legacy/index-writer-opens")
	for i := range keys {
		off, err := dw.Write(&proto.DataEntry{Value: vals[i]})
		if err != nil {
			vrt.Note("legacy data write: " + err.Error())
		}
		vrt.Assert(err == nil, "legacy/data-write")
		_, err = iw.Write(&proto.IndexEntry{Key: keys[i], ValueOffset: off})
		vrt.Assert(err == nil, "legacy/index-write")
	}
	vrt.Assert(dw.Close() == nil && iw.Close() == nil, "legacy/writers-close")
}

// H_C19_FailedOpen: opening a table with a damaged or missing file either fails and leaves nothing open, or
// succeeds and Close releases everything.
func H_C19_FailedOpen() {
	if !vrt.Symbolic() {
		// a leaked *os.File would be closed by its finalizer at the next garbage collection
		defer debug.SetGCPercent(debug.SetGCPercent(-1))
	}
	fs := vEnv()
	defer fs.Cleanup()
	dir := fs.Path("t")
	fs.MkdirAll(dir)
	keys := [][]byte{{'a'}, {'b'}}
	vals := [][]byte{{vrt.Byte("v0")}, {vrt.Byte("v1")}}
	vWriteTable(dir, keys, vals, recordio.CompressionTypeSnappy, recordio.CompressionTypeNone, 64)
	vrt.Assert(fs.OpenCount() == 0, "failedopen/writer-close-releases-everything")

	name := []string{IndexFileName, DataFileName, MetaFileName, BloomFileName}[vrt.Choose("file", 4)]
	p := fs.Path("t/" + name)
	data := fs.ReadFile(p)
	// (the metadata file is only cut, not altered: an altered record count makes the index loaders ask for a
	// slice of that capacity - a crash, not a leak, and outside this property)
	if name == MetaFileName || vrt.Choose("damage", 2) == 0 {
		cut := vScaled("cut", len(data))
		fs.WriteFile(p, data[:cut])
	} else {
		pos := vScaled("pos", len(data))
		dmg := append([]byte{}, data...)
		dmg[pos] ^= 0x55
		fs.WriteFile(p, dmg)
	}
	li := vrt.Choose("loader", 4)
	vrt.Tag("file-" + name)
	vrt.Tag("loader-" + vLoaderNames[li])
	r, err := NewSSTableReader(ReadBasePath(dir), ReadBufferSizeBytes(16), ReadIndexLoader(vLoader(li, 16)))
	// (whether a given cut makes the open fail depends on the record encoding, which is a stand-in under the
	// engine: not traced)
	if err != nil {
		vrt.Reach("failedopen/open-failed")
		vrt.Assert(fs.OpenCount() == 0, "failedopen/failed-open-leaves-nothing-open")
	} else {
		_, _ = r.Get(keys[0])
		it, serr := r.Scan()
		if serr == nil {
			it.Next()
		}
		vrt.Assert(r.Close() == nil, "failedopen/close-no-error")
		vrt.Assert(fs.OpenCount() == 0, "failedopen/close-releases-everything")
	}
	vrt.TraceBool("done", true)
	vrt.Reach("failedopen/end")
}

// vScaled picks a position 0..n-1 in a way that means the same natively, where the files have other lengths than
// under the engine (real record encoding): a percentage. Under the engine the files are shorter than 100 bytes,
// so every position is reached.
func vScaled(key string, n int) int {
	if vrt.Symbolic() {
		vrt.Assert(n <= 100, "failedopen/model-files-are-at-most-100-bytes")
	}
	return vrt.Range(key, 0, 99) * n / 100
}
