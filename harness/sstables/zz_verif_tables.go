//go:build verif

package sstables

import (
	"bytes"
	"errors"

	"github.com/thomasjungblut/go-sstables/sstables/proto"
	"github.com/thomasjungblut/go-sstables/vrt"
)

// ---- in-memory table fake: a sorted list of (key, value) pairs ----
// Contract (established on the real readers by the C03/C04 harnesses): Get /
// Contains answer for written keys only; scans are ascending; ScanRange is
// inclusive on both ends and rejects lower > upper; an empty key comes back as
// nil (protobuf decodes an empty bytes field to nil); a nil value comes back
// as nil, an empty value as empty non-nil.

type vTable struct {
	name   string
	keys   [][]byte
	vals   [][]byte
	failAt int // Next() call index (0-based, over all iterators of this table) that fails; -1 never
	nexts  int
	closed int
	meta   *proto.MetaData
}

var vErrInjected = errors.New("injected I/O failure")

func (t *vTable) Contains(key []byte) (bool, error) {
	for i := range t.keys {
		if vrt.EqBytes(t.keys[i], key) {
			return true, nil
		}
	}
	return false, nil
}

func (t *vTable) Get(key []byte) ([]byte, error) {
	for i := range t.keys {
		if vrt.EqBytes(t.keys[i], key) {
			return t.vals[i], nil
		}
	}
	return nil, NotFound
}

type vTableIter struct {
	t      *vTable
	pos    int
	hi     []byte
	useHi  bool
	failed bool
}

func (it *vTableIter) Next() ([]byte, []byte, error) {
	t := it.t
	if t.failAt >= 0 && t.nexts == t.failAt {
		t.nexts++
		return nil, nil, vErrInjected
	}
	t.nexts++
	if it.pos >= len(t.keys) {
		return nil, nil, Done
	}
	k := t.keys[it.pos]
	if it.useHi && vrt.CmpBytes(k, it.hi) > 0 {
		it.pos = len(t.keys)
		return nil, nil, Done
	}
	v := t.vals[it.pos]
	it.pos++
	return k, v, nil
}

func (t *vTable) Scan() (SSTableIteratorI, error) { return &vTableIter{t: t}, nil }

func (t *vTable) ScanStartingAt(key []byte) (SSTableIteratorI, error) {
	p := 0
	for p < len(t.keys) && vrt.CmpBytes(t.keys[p], key) < 0 {
		p++
	}
	return &vTableIter{t: t, pos: p}, nil
}

func (t *vTable) ScanRange(lo []byte, hi []byte) (SSTableIteratorI, error) {
	if vrt.CmpBytes(lo, hi) > 0 {
		return nil, errors.New("keyHigher is lower than keyLower")
	}
	p := 0
	for p < len(t.keys) && vrt.CmpBytes(t.keys[p], lo) < 0 {
		p++
	}
	return &vTableIter{t: t, pos: p, hi: hi, useHi: true}, nil
}

func (t *vTable) Close() error { t.closed++; return nil }

// MetaData is truthful (the contract C15 establishes for tables the real writer produces): record count, nil
// count, smallest and largest key.
func (t *vTable) MetaData() *proto.MetaData {
	if t.meta != nil {
		return t.meta
	}
	md := &proto.MetaData{NumRecords: uint64(len(t.keys)), Version: 1}
	for _, v := range t.vals {
		if v == nil {
			md.NullValues++
		}
	}
	if len(t.keys) > 0 {
		md.MinKey = append([]byte{}, t.keys[0]...)
		md.MaxKey = append([]byte{}, t.keys[len(t.keys)-1]...)
	}
	return md
}

func (t *vTable) BasePath() string { return t.name }

// ---- universe and table contents ----

// value states of a key inside one table
const (
	vsAbsent = iota
	vsNil
	vsEmpty
	vsValue
)

var vUniverse = [][]byte{{}, {'a'}, {'b'}}

// vKeyAsRead is how the real readers hand a key back: the empty key is nil.
func vKeyAsRead(k []byte) []byte {
	if len(k) == 0 {
		return nil
	}
	return k
}

// vMakeTable draws the state of each universe key for table t.
func vMakeTable(t int, nKeys int, states []int) *vTable {
	tb := &vTable{name: vrt.K("table", t), failAt: -1}
	for ki := 0; ki < nKeys; ki++ {
		st := vrt.Choose(vrt.K("t", t, "k", ki, "state"), 4)
		states[ki] = st
		if st == vsAbsent {
			continue
		}
		var v []byte
		switch st {
		case vsNil:
			v = nil
		case vsEmpty:
			v = []byte{}
		case vsValue:
			v = []byte{vrt.Byte(vrt.K("t", t, "k", ki, "v"))}
		}
		tb.keys = append(tb.keys, vKeyAsRead(vUniverse[ki]))
		tb.vals = append(tb.vals, v)
		if ki == 0 {
			vrt.Tag("empty-key-present")
		}
	}
	return tb
}

// collecting writer
type vCollect struct {
	keys   [][]byte
	vals   [][]byte
	failAt int
	calls  int
}

func (w *vCollect) Open() error { return nil }
func (w *vCollect) WriteNext(k, v []byte) error {
	if w.failAt >= 0 && w.calls == w.failAt {
		w.calls++
		return vErrInjected
	}
	w.calls++
	kc := append([]byte{}, k...)
	var vc []byte
	if v != nil {
		vc = append([]byte{}, v...)
	}
	w.keys = append(w.keys, kc)
	w.vals = append(w.vals, vc)
	return nil
}
func (w *vCollect) Close() error { return nil }

func vDrainTable(it SSTableIteratorI, max int) (ks, vs [][]byte, err error, ok bool) {
	for i := 0; i <= max; i++ {
		k, v, e := it.Next()
		if e != nil {
			return ks, vs, e, true
		}
		ks = append(ks, k)
		vs = append(vs, v)
	}
	return ks, vs, nil, false
}

// vScaledComparator orders like skiplist.BytesComparator but answers with other magnitudes than -1/0/1, which
// the comparator contract (< 0, == 0, > 0) allows: code that tests for exactly 1 or -1 is wrong with it.
type vScaledComparator struct{}

func (vScaledComparator) Compare(a, b []byte) int { return 3 * bytes.Compare(a, b) }
