//go:build verif

package sstables

import (
	"errors"
	"sync"

	"github.com/thomasjungblut/go-sstables/recordio"
	"github.com/thomasjungblut/go-sstables/vrt"
)

// H_C18_ReadOnly: Get / Contains / range scans on one table reader (default index loaders) and random-access
// reads and seeks on one memory-mapped reader do not write to anything that existed before the call: no write,
// no data race between any number of such calls, and each call is a function of immutable state, i.e. returns
// what it returns when executed alone.
func H_C18_ReadOnly() {
	fs := vEnv()
	defer fs.Cleanup()
	dir := fs.Path("t")
	fs.MkdirAll(dir)
	keys := [][]byte{{'a'}, {'b'}, {'c'}}
	vals := [][]byte{{vrt.Byte("v0")}, nil, {vrt.Byte("v2")}}
	vWriteTable(dir, keys, vals, recordio.CompressionTypeSnappy, recordio.CompressionTypeNone, 64)
	if !vrt.Symbolic() {
		// natively (race detector build), whatever the vector says: tables with the other data compression types
		// read by several goroutines at once - the real compressors only run natively (gzip and lzw are contract
		// stand-ins under the engine), so state they share between calls can only be seen here
		for ci, comp := range []int{recordio.CompressionTypeGZIP, recordio.CompressionTypeLzw, recordio.CompressionTypeNone} {
			cdir := fs.Path("c" + string(rune('0'+ci)))
			fs.MkdirAll(cdir)
			cvals := [][]byte{{1, 2, 3, 4, 5, 6, 7, 8}, nil, {9, 9, 9, 9, 9, 9, 9, 9, 9}}
			vWriteTable(cdir, keys, cvals, comp, recordio.CompressionTypeNone, 64)
			cr, err := NewSSTableReader(ReadBasePath(cdir), ReadBufferSizeBytes(16))
			vrt.Assert(err == nil, "readonly/open-no-error")
			cm, err := recordio.NewMemoryMappedReaderWithPath(cdir + "/" + DataFileName)
			vrt.Assert(err == nil && cm.Open() == nil, "readonly/mmap-open")
			var wg sync.WaitGroup
			for g := 0; g < 4; g++ {
				wg.Add(1)
				go func(g int) {
					defer wg.Done()
					for i := 0; i < 100; i++ {
						k := keys[(i+g)%3]
						got, err := cr.Get(k)
						want := cvals[(i+g)%3]
						if want != nil {
							vrt.Assert(err == nil && vrt.EqBytes(got, want), "readonly/concurrent-get-returns-the-single-threaded-answer")
						}
						_, _ = cr.Contains(k)
						if it, err := cr.ScanRange(keys[0], keys[2]); err == nil {
							it.Next()
						}
						_, _ = cm.ReadNextAt(recordio.FileHeaderSizeBytes)
						_, _, _ = cm.SeekNext(uint64(recordio.FileHeaderSizeBytes + i%20))
					}
				}(g)
			}
			wg.Wait()
			cr.Close()
			cm.Close()
		}
	}

	if !vrt.Symbolic() {
		// natively, whatever the vector says: two records larger than every pool bucket (768 KiB) read at random
		// access by several goroutines at once
		lp := fs.Path("large.rio")
		lw, err := recordio.NewFileWriter(recordio.Path(lp), recordio.CompressionType(recordio.CompressionTypeNone))
		vrt.Assert(err == nil && lw.Open() == nil, "readonly/large-writer-open")
		big := [2][]byte{make([]byte, 768<<10), make([]byte, 768<<10)}
		for i := range big[0] {
			big[0][i], big[1][i] = 0xAA, 0x55
		}
		var loffs [2]uint64
		for i := range big {
			loffs[i], err = lw.Write(big[i])
			vrt.Assert(err == nil, "readonly/large-write")
		}
		vrt.Assert(lw.Close() == nil, "readonly/large-writer-close")
		lm, err := recordio.NewMemoryMappedReaderWithPath(lp)
		vrt.Assert(err == nil && lm.Open() == nil, "readonly/mmap-open")
		var wg sync.WaitGroup
		for g := 0; g < 4; g++ {
			wg.Add(1)
			go func(g int) {
				defer wg.Done()
				for i := 0; i < 20; i++ {
					got, err := lm.ReadNextAt(loffs[g%2])
					vrt.Assert(err == nil && len(got) == len(big[g%2]) && got[0] == big[g%2][0] && got[len(got)-1] == big[g%2][0],
						"readonly/concurrent-large-read-returns-the-single-threaded-answer")
				}
			}(g)
		}
		wg.Wait()
		lm.Close()
	}

	which := vrt.Choose("object", 3)
	switch which {
	case 0, 1:
		var r SSTableReaderI
		var err error
		if which == 0 {
			r, err = NewSSTableReader(ReadBasePath(dir), ReadBufferSizeBytes(16)) // default: slice index
		} else {
			r, err = NewSSTableReader(ReadBasePath(dir), ReadBufferSizeBytes(16), EnableHashCheckOnReads())
		}
		vrt.Assert(err == nil, "readonly/open-no-error")
		vrt.Freeze(r)
		probe := vrt.Bytes("probe", 1)
		if !vrt.Symbolic() {
			// natively (race detector build): the same calls from several goroutines at once
			var wg sync.WaitGroup
			for g := 0; g < 4; g++ {
				wg.Add(1)
				go func() {
					defer wg.Done()
					for i := 0; i < 200; i++ {
						_, _ = r.Contains(probe)
						_, _ = r.Get(keys[i%3])
						if it, err := r.ScanStartingAt(probe); err == nil {
							it.Next()
						}
						if it, err := r.ScanRange(keys[0], keys[2]); err == nil {
							it.Next()
						}
					}
				}()
			}
			wg.Wait()
		}
		for round := 0; round < 2; round++ { // two calls of each kind on the same reader
			_, _ = r.Contains(probe)
			_, gerr := r.Get(probe)
			vrt.Assert(gerr == nil || errors.Is(gerr, NotFound), "readonly/get-no-unexpected-error")
			it, err := r.ScanStartingAt(probe)
			vrt.Assert(err == nil, "readonly/scan-starting-at-no-error")
			it.Next()
			it.Next()
			it2, err := r.ScanRange(keys[0], keys[2])
			vrt.Assert(err == nil, "readonly/scan-range-no-error")
			it2.Next()
		}
		w := vrt.SharedWrites()
		for _, x := range w {
			vrt.Note(x)
		}
		vrt.Assert(len(w) == 0, "readonly/table-reader-calls-write-nothing-shared")
		vrt.Reach("readonly/table-reader")
	case 2:
		p := fs.Path("t/" + DataFileName)
		m, err := recordio.NewMemoryMappedReaderWithPath(p)
		vrt.Assert(err == nil && m.Open() == nil, "readonly/mmap-open")
		vrt.Freeze(m)
		off := uint64(vrt.Range("off", 0, 40))
		if !vrt.Symbolic() {
			var wg sync.WaitGroup
			for g := 0; g < 4; g++ {
				wg.Add(1)
				go func() {
					defer wg.Done()
					for i := 0; i < 200; i++ {
						_, _ = m.ReadNextAt(recordio.FileHeaderSizeBytes)
						_, _, _ = m.SeekNext(off)
					}
				}()
			}
			wg.Wait()
		}
		for round := 0; round < 2; round++ {
			_, _ = m.ReadNextAt(recordio.FileHeaderSizeBytes)
			_, _, _ = m.SeekNext(off)
			_ = m.Size()
		}
		w := vrt.SharedWrites()
		for _, x := range w {
			vrt.Note(x)
		}
		vrt.Assert(len(w) == 0, "readonly/mmap-reader-calls-write-nothing-shared")
		vrt.Reach("readonly/mmap-reader")
	}
	vrt.TraceBool("done", true)
	vrt.Reach("readonly/end")
}
