//go:build verif

package sstables

import (
	"github.com/thomasjungblut/go-sstables/sstables/proto"
	"errors"

	"github.com/thomasjungblut/go-sstables/skiplist"
	"github.com/thomasjungblut/go-sstables/vrt"
)

func vDims() (nT, nK int) {
	switch vrt.Choose("dims", 3) {
	case 0:
		nT, nK = 2, 3
	case 1:
		nT, nK = 3, 2
	default:
		// a stack of one table / a compaction with one input: everything must hold there too
		vrt.Tag("single-table")
		return 1, 3
	}
	// (one more table in the thorough tier is out of reach for the exhaustive state combinations: more than
	// three million paths; the thorough tier deepens the symbolic-key variants instead)
	return
}

// vStack builds nT tables (oldest first) and the oracle: per key the state and value of the newest table that has it.
func vStack(nT, nK int) (tabs []*vTable, readers []SSTableReaderI, newest []int, newestVal [][]byte, anywhere []bool) {
	newest = make([]int, nK)
	newestVal = make([][]byte, nK)
	anywhere = make([]bool, nK)
	for t := 0; t < nT; t++ {
		states := make([]int, nK)
		tb := vMakeTable(t, nK, states)
		tabs = append(tabs, tb)
		readers = append(readers, tb)
		for ki := 0; ki < nK; ki++ {
			if states[ki] != vsAbsent {
				anywhere[ki] = true
				newest[ki] = states[ki]
				v, _ := tb.Get(vKeyAsRead(vUniverse[ki]))
				newestVal[ki] = v
			}
		}
	}
	return
}

// vExpectScan asserts that (ks, vs) is exactly the oracle sequence restricted to [lo, hi].
// omit(state) tells which newest states are left out of the output.
func vExpectScan(id string, nK int, newest []int, newestVal [][]byte, anywhere []bool, lo, hi []byte, useLo, useHi bool,
	omitEmpty bool, ks, vs [][]byte) {
	want := 0
	for ki := 0; ki < nK; ki++ {
		if !anywhere[ki] {
			continue
		}
		k := vUniverse[ki]
		if useLo && vrt.CmpBytes(k, lo) < 0 {
			continue
		}
		if useHi && vrt.CmpBytes(k, hi) > 0 {
			continue
		}
		if newest[ki] == vsNil || (omitEmpty && newest[ki] == vsEmpty) {
			continue
		}
		if want < len(ks) {
			vrt.Assert(vrt.EqBytes(ks[want], k), id+"/key")
			vrt.Assert(vrt.SameBytes(vs[want], newestVal[ki]), id+"/value-of-newest-table")
		}
		want++
	}
	vrt.Assert(want == len(ks), id+"/count")
}

var vBounds = [][]byte{{}, {'0'}, {'a'}, {'b'}, {'c'}}

// H_C08_Stack: stacked reader point lookups and scans = latest-wins union.
func H_C08_Stack() {
	nT, nK := vDims()
	tabs, readers, newest, newestVal, anywhere := vStack(nT, nK)
	if vrt.Choose("legacy", 2) == 1 {
		// the oldest table is in the first layout: it has no metadata file and reports empty metadata
		tabs[0].meta = &proto.MetaData{}
		vrt.Tag("oldest-table-without-metadata")
	}
	s := NewSuperSSTableReader(readers, vScaledComparator{})

	for ki := 0; ki < nK; ki++ {
		k := vKeyAsRead(vUniverse[ki])
		got, err := s.Get(k)
		c, cerr := s.Contains(k)
		vrt.Assert(cerr == nil, "stack/contains-no-error")
		vrt.Assert(c == anywhere[ki], "stack/contains")
		if !anywhere[ki] {
			vrt.Assert(errors.Is(err, NotFound), "stack/get-absent-notfound")
		} else {
			vrt.Assert(err == nil, "stack/get-present-no-error")
			vrt.Assert(vrt.SameBytes(got, newestVal[ki]), "stack/get-value-of-newest-table")
		}
	}

	switch vrt.Choose("scan", 3) {
	case 0:
		it, err := s.Scan()
		vrt.Assert(err == nil, "stack/scan-no-error")
		ks, vs, e, ok := vDrainTable(it, nK)
		vrt.Assert(ok && errors.Is(e, Done), "stack/scan-ends-with-done")
		vExpectScan("stack/scan", nK, newest, newestVal, anywhere, nil, nil, false, false, false, ks, vs)
	case 1:
		lo := vBounds[vrt.Choose("lo", len(vBounds))]
		it, err := s.ScanStartingAt(lo)
		vrt.Assert(err == nil, "stack/scan-starting-at-no-error")
		ks, vs, e, ok := vDrainTable(it, nK)
		vrt.Assert(ok && errors.Is(e, Done), "stack/scan-starting-at-ends-with-done")
		vExpectScan("stack/scan-starting-at", nK, newest, newestVal, anywhere, lo, nil, true, false, false, ks, vs)
	case 2:
		lo := vBounds[vrt.Choose("lo", len(vBounds))]
		hi := vBounds[vrt.Choose("hi", len(vBounds))]
		it, err := s.ScanRange(lo, hi)
		if vrt.CmpBytes(lo, hi) > 0 {
			vrt.Assert(err != nil, "stack/scan-range-lower-above-upper-rejected")
			return
		}
		vrt.Assert(err == nil, "stack/scan-range-no-error")
		ks, vs, e, ok := vDrainTable(it, nK)
		vrt.Assert(ok && errors.Is(e, Done), "stack/scan-range-ends-with-done")
		vExpectScan("stack/scan-range", nK, newest, newestVal, anywhere, lo, hi, true, true, false, ks, vs)
	}
	vrt.Reach("stack/end")
}

// H_C08_MergeCompact: MergeCompact with both provided reductions.
func H_C08_MergeCompact() {
	nT, nK := vDims()
	tabs, _, newest, newestVal, anywhere := vStack(nT, nK)
	var its []SSTableMergeIteratorContext
	for i, tb := range tabs {
		sc, _ := tb.Scan()
		its = append(its, NewMergeIteratorContext(i, sc))
	}
	w := &vCollect{failAt: -1}
	skip := vrt.Choose("reduce", 2) == 1
	var err error
	if skip {
		err = NewSSTableMerger(vScaledComparator{}).MergeCompact(its, w, ScanReduceLatestWinsSkipTombstones)
	} else {
		err = NewSSTableMerger(vScaledComparator{}).MergeCompact(its, w, ScanReduceLatestWins)
	}
	vrt.Assert(err == nil, "mergecompact/no-error")
	vExpectScan("mergecompact", nK, newest, newestVal, anywhere, nil, nil, false, false, skip, w.keys, w.vals)
	vrt.Trace("written", uint64(len(w.keys)))
	vrt.Reach("mergecompact/end")
}

// H_C08_Merge: plain merge of key-disjoint tables: every record exactly once, ascending, with its own value.
func H_C08_Merge() {
	nT, nK := 3, 3
	tabs := make([]*vTable, nT)
	for t := range tabs {
		tabs[t] = &vTable{name: vrt.K("table", t), failAt: -1}
	}
	owner := make([]int, nK)
	vals := make([][]byte, nK)
	for ki := 0; ki < nK; ki++ {
		owner[ki] = vrt.Choose(vrt.K("k", ki, "owner"), nT+1) - 1 // -1: in no table
		if owner[ki] < 0 {
			continue
		}
		if ki == 0 {
			vrt.Tag("empty-key-present")
		}
		v := vrt.BytesOrNil(vrt.K("k", ki, "v"), 1)
		vals[ki] = v
		tb := tabs[owner[ki]]
		tb.keys = append(tb.keys, vKeyAsRead(vUniverse[ki]))
		tb.vals = append(tb.vals, v)
	}
	var its []SSTableMergeIteratorContext
	for i, tb := range tabs {
		sc, _ := tb.Scan()
		its = append(its, NewMergeIteratorContext(i, sc))
	}
	w := &vCollect{failAt: -1}
	err := NewSSTableMerger(vScaledComparator{}).Merge(its, w)
	vrt.Assert(err == nil, "merge/no-error")
	want := 0
	for ki := 0; ki < nK; ki++ {
		if owner[ki] < 0 {
			continue
		}
		if want < len(w.keys) {
			vrt.Assert(vrt.EqBytes(w.keys[want], vUniverse[ki]), "merge/key")
			vrt.Assert(vrt.SameBytes(w.vals[want], vals[ki]), "merge/own-value")
		}
		want++
	}
	vrt.Assert(want == len(w.keys), "merge/count")
	vrt.Trace("written", uint64(len(w.keys)))
	vrt.Reach("merge/end")
}

// ---- symbolic keys: the solver decides how the key sets of the tables overlap ----

type vRec struct {
	k, v  []byte
	state int
}

// vMakeTableSym: up to maxRecs records, strictly ascending symbolic keys (only the first key of a table can be
// the empty key), value nil or one symbolic byte.
func vMakeTableSym(t, maxRecs int) (*vTable, []vRec) {
	tb := &vTable{name: vrt.K("table", t), failAt: -1}
	n := vrt.Range(vrt.K("t", t, "n"), 0, maxRecs)
	var recs []vRec
	var prev []byte
	for i := 0; i < n; i++ {
		var k []byte
		if i == 0 {
			k = vrt.Bytes(vrt.K("t", t, "k", i), 1)
		} else {
			k = vrt.BytesN(vrt.K("t", t, "k", i), 1)
			vrt.Assume(vrt.CmpBytes(prev, k) < 0)
		}
		prev = k
		if len(k) == 0 {
			vrt.Tag("empty-key-present")
		}
		st := vsNil
		var v []byte
		if vrt.Choose(vrt.K("t", t, "k", i, "live"), 2) == 1 {
			st = vsValue
			v = []byte{vrt.Byte(vrt.K("t", t, "v", i))}
		}
		tb.keys = append(tb.keys, vKeyAsRead(k))
		tb.vals = append(tb.vals, v)
		recs = append(recs, vRec{k, v, st})
	}
	return tb, recs
}

// vOracle folds the tables oldest→newest into an ascending list with the newest value per key.
func vOracle(all [][]vRec) []vRec {
	var m []vRec
	for _, recs := range all {
		for _, r := range recs {
			found := false
			for i := range m {
				if vrt.EqBytes(m[i].k, r.k) {
					m[i] = r
					found = true
					break
				}
			}
			if !found {
				m = append(m, r)
			}
		}
	}
	for i := 0; i < len(m); i++ {
		for j := i + 1; j < len(m); j++ {
			if vrt.CmpBytes(m[j].k, m[i].k) < 0 {
				m[i], m[j] = m[j], m[i]
			}
		}
	}
	return m
}

func vExpectSeq(id string, m []vRec, lo, hi []byte, useLo, useHi, omitEmpty bool, ks, vs [][]byte) {
	want := 0
	for _, r := range m {
		if useLo && vrt.CmpBytes(r.k, lo) < 0 {
			continue
		}
		if useHi && vrt.CmpBytes(r.k, hi) > 0 {
			continue
		}
		if r.state == vsNil || (omitEmpty && r.state == vsEmpty) {
			continue
		}
		if want < len(ks) {
			vrt.Assert(vrt.EqBytes(ks[want], r.k), id+"/key")
			vrt.Assert(vrt.SameBytes(vs[want], r.v), id+"/value-of-newest-table")
		}
		want++
	}
	vrt.Assert(want == len(ks), id+"/count")
}

func vSymDims() (nT, maxRecs int) {
	if vrt.Thorough() {
		return 3, 2
	}
	switch vrt.Choose("dims", 3) {
	case 0:
		return 2, 2
	case 1:
		return 3, 1
	}
	vrt.Tag("single-table")
	return 1, 2
}

// H_C08_StackSym: as H_C08_Stack with symbolic keys, probe and bounds.
func H_C08_StackSym() {
	nT, maxRecs := vSymDims()
	var readers []SSTableReaderI
	var all [][]vRec
	total := 0
	for t := 0; t < nT; t++ {
		tb, recs := vMakeTableSym(t, maxRecs)
		readers = append(readers, tb)
		all = append(all, recs)
		total += len(recs)
	}
	m := vOracle(all)
	s := NewSuperSSTableReader(readers, skiplist.BytesComparator{})

	switch vrt.Choose("op", 4) {
	case 0:
		probe := vrt.Bytes("probe", 1)
		var want *vRec
		for i := range m {
			if vrt.EqBytes(m[i].k, probe) {
				want = &m[i]
			}
		}
		got, err := s.Get(vKeyAsRead(probe))
		c, cerr := s.Contains(vKeyAsRead(probe))
		vrt.Assert(cerr == nil, "stacksym/contains-no-error")
		vrt.Assert(c == (want != nil), "stacksym/contains")
		if want == nil {
			vrt.Reach("stacksym/probe-absent")
			vrt.Assert(errors.Is(err, NotFound), "stacksym/get-absent-notfound")
		} else {
			vrt.Reach("stacksym/probe-present")
			vrt.Assert(err == nil, "stacksym/get-present-no-error")
			vrt.Assert(vrt.SameBytes(got, want.v), "stacksym/get-value-of-newest-table")
		}
	case 1:
		it, err := s.Scan()
		vrt.Assert(err == nil, "stacksym/scan-no-error")
		ks, vs, e, ok := vDrainTable(it, total)
		vrt.Assert(ok && errors.Is(e, Done), "stacksym/scan-ends-with-done")
		vExpectSeq("stacksym/scan", m, nil, nil, false, false, false, ks, vs)
	case 2:
		lo := vrt.Bytes("lo", 1)
		it, err := s.ScanStartingAt(lo)
		vrt.Assert(err == nil, "stacksym/scan-starting-at-no-error")
		ks, vs, e, ok := vDrainTable(it, total)
		vrt.Assert(ok && errors.Is(e, Done), "stacksym/scan-starting-at-ends-with-done")
		vExpectSeq("stacksym/scan-starting-at", m, lo, nil, true, false, false, ks, vs)
	case 3:
		lo := vrt.Bytes("lo", 1)
		hi := vrt.Bytes("hi", 1)
		it, err := s.ScanRange(lo, hi)
		if vrt.CmpBytes(lo, hi) > 0 {
			vrt.Assert(err != nil, "stacksym/scan-range-lower-above-upper-rejected")
			return
		}
		vrt.Assert(err == nil, "stacksym/scan-range-no-error")
		ks, vs, e, ok := vDrainTable(it, total)
		vrt.Assert(ok && errors.Is(e, Done), "stacksym/scan-range-ends-with-done")
		vExpectSeq("stacksym/scan-range", m, lo, hi, true, true, false, ks, vs)
	}
	vrt.Reach("stacksym/end")
}

// H_C08_MergeCompactSym: compacting merge with symbolic keys, both reductions.
func H_C08_MergeCompactSym() {
	nT, maxRecs := vSymDims()
	var its []SSTableMergeIteratorContext
	var all [][]vRec
	for t := 0; t < nT; t++ {
		tb, recs := vMakeTableSym(t, maxRecs)
		sc, _ := tb.Scan()
		its = append(its, NewMergeIteratorContext(t, sc))
		all = append(all, recs)
	}
	m := vOracle(all)
	w := &vCollect{failAt: -1}
	skip := vrt.Choose("reduce", 2) == 1
	var err error
	if skip {
		err = NewSSTableMerger(skiplist.BytesComparator{}).MergeCompact(its, w, ScanReduceLatestWinsSkipTombstones)
	} else {
		err = NewSSTableMerger(skiplist.BytesComparator{}).MergeCompact(its, w, ScanReduceLatestWins)
	}
	vrt.Assert(err == nil, "mergecompactsym/no-error")
	vExpectSeq("mergecompactsym", m, nil, nil, false, false, skip, w.keys, w.vals)
	vrt.Trace("written", uint64(len(w.keys)))
	for i := range w.keys {
		vrt.TraceBytes(vrt.K("k", i), w.keys[i])
	}
	vrt.Reach("mergecompactsym/end")
}
