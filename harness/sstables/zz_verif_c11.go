//go:build verif

package sstables

import (
	"github.com/thomasjungblut/go-sstables/skiplist"
	"github.com/thomasjungblut/go-sstables/vrt"
)

// H_C11_MergeFaults: a failing input read or output write during Merge / MergeCompact is reported;
// success is only reported for an output that is exactly the oracle sequence.
func H_C11_MergeFaults() {
	nT := 2
	if vrt.Thorough() {
		nT = 3
	}
	var tabs []*vTable
	var all [][]vRec
	total := 0
	for t := 0; t < nT; t++ {
		maxRecs := 2
		if t == 2 {
			maxRecs = 1 // thorough: a third input of at most one record (three inputs of two are out of reach)
		}
		tb, recs := vMakeTableSym(t, maxRecs)
		tabs = append(tabs, tb)
		all = append(all, recs)
		total += len(recs)
	}
	compact := vrt.Choose("compact", 2) == 1
	if !compact {
		// plain merge requires key-disjoint inputs
		for a := 0; a < len(all); a++ {
			for b := a + 1; b < len(all); b++ {
				for _, ra := range all[a] {
					for _, rb := range all[b] {
						vrt.Assume(!vrt.EqBytes(ra.k, rb.k))
					}
				}
			}
		}
	}
	m := vOracle(all)

	// fault plan: none | one input iterator fails at its p-th Next | the writer fails at its q-th call |
	// (thorough) both
	w := &vCollect{failAt: -1}
	injected := false
	switch vrt.Choose("fault", 4) {
	case 0:
	case 1:
		ft := vrt.Choose("fault.table", nT)
		tabs[ft].failAt = vrt.Range("fault.pos", 0, len(tabs[ft].keys)) // position len = the call that would say Done
		injected = true
		vrt.Reach("faults/input-fault")
	case 2:
		w.failAt = vrt.Range("fault.write", 0, total)
		vrt.Reach("faults/writer-fault")
	case 3:
		vrt.Assume(vrt.Thorough())
		ft := vrt.Choose("fault.table", nT)
		tabs[ft].failAt = vrt.Range("fault.pos", 0, len(tabs[ft].keys))
		w.failAt = vrt.Range("fault.write", 0, total)
		injected = true
	}

	var its []SSTableMergeIteratorContext
	for i, tb := range tabs {
		sc, _ := tb.Scan()
		its = append(its, NewMergeIteratorContext(i, sc))
	}
	var err error
	if compact {
		err = NewSSTableMerger(skiplist.BytesComparator{}).MergeCompact(its, w, ScanReduceLatestWins)
	} else {
		err = NewSSTableMerger(skiplist.BytesComparator{}).Merge(its, w)
	}
	writerFaultHit := w.failAt >= 0 && w.calls > w.failAt
	inputFaultHit := false
	for _, tb := range tabs {
		if tb.failAt >= 0 && tb.nexts > tb.failAt {
			inputFaultHit = true
		}
	}
	_ = injected
	if inputFaultHit {
		vrt.Assert(err != nil, "faults/input-read-failure-is-reported")
	}
	if writerFaultHit {
		vrt.Assert(err != nil, "faults/output-write-failure-is-reported")
	}
	if err == nil {
		// success ⇒ the output is complete and truthful
		if compact {
			vExpectSeq("faults/success-means-complete-output", m, nil, nil, false, false, false, w.keys, w.vals)
		} else {
			want := 0
			for _, r := range m {
				if want < len(w.keys) {
					vrt.Assert(vrt.EqBytes(w.keys[want], r.k), "faults/success-means-complete-output/key")
					vrt.Assert(vrt.SameBytes(w.vals[want], r.v), "faults/success-means-complete-output/value")
				}
				want++
			}
			vrt.Assert(want == len(w.keys), "faults/success-means-complete-output/count")
		}
	}
	vrt.TraceBool("err", err != nil)
	vrt.Trace("written", uint64(len(w.keys)))
	vrt.Reach("faults/end")
}
