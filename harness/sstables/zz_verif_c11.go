//go:build verif

package sstables

import (
	"os"
	"github.com/thomasjungblut/go-sstables/skiplist"
	"github.com/thomasjungblut/go-sstables/vrt"
)

// H_C11_MergeFaults: a failing input read or output write during Merge / MergeCompact is reported;
// success is only reported for an output that is exactly the oracle sequence.
func H_C11_MergeFaults() {
	nT := 2
	if vrt.Thorough() {
		nT = 3
	}
	var tabs []*vTable
	var all [][]vRec
	total := 0
	for t := 0; t < nT; t++ {
		maxRecs := 2
		if t == 2 {
			maxRecs = 1 // thorough: a third input of at most one record (three inputs of two are out of reach)
		}
		tb, recs := vMakeTableSym(t, maxRecs)
		tabs = append(tabs, tb)
		all = append(all, recs)
		total += len(recs)
	}
	compact := vrt.Choose("compact", 2) == 1
	if !compact {
		// plain merge requires key-disjoint inputs
		for a := 0; a < len(all); a++ {
			for b := a + 1; b < len(all); b++ {
				for _, ra := range all[a] {
					for _, rb := range all[b] {
						vrt.Assume(!vrt.EqBytes(ra.k, rb.k))
					}
				}
			}
		}
	}
	m := vOracle(all)

	// fault plan: none | one input iterator fails at its p-th Next | the writer fails at its q-th call |
	// (thorough) both
	w := &vCollect{failAt: -1}
	injected := false
	switch vrt.Choose("fault", 4) {
	case 0:
	case 1:
		ft := vrt.Choose("fault.table", nT)
		tabs[ft].failAt = vrt.Range("fault.pos", 0, len(tabs[ft].keys)) // position len = the call that would say Done
		injected = true
		vrt.Reach("faults/input-fault")
	case 2:
		w.failAt = vrt.Range("fault.write", 0, total)
		vrt.Reach("faults/writer-fault")
	case 3:
		vrt.Assume(vrt.Thorough())
		ft := vrt.Choose("fault.table", nT)
		tabs[ft].failAt = vrt.Range("fault.pos", 0, len(tabs[ft].keys))
		w.failAt = vrt.Range("fault.write", 0, total)
		injected = true
	}

	var its []SSTableMergeIteratorContext
	for i, tb := range tabs {
		sc, _ := tb.Scan()
		its = append(its, NewMergeIteratorContext(i, sc))
	}
	var err error
	if compact {
		err = NewSSTableMerger(skiplist.BytesComparator{}).MergeCompact(its, w, ScanReduceLatestWins)
	} else {
		err = NewSSTableMerger(skiplist.BytesComparator{}).Merge(its, w)
	}
	writerFaultHit := w.failAt >= 0 && w.calls > w.failAt
	inputFaultHit := false
	for _, tb := range tabs {
		if tb.failAt >= 0 && tb.nexts > tb.failAt {
			inputFaultHit = true
		}
	}
	_ = injected
	if inputFaultHit {
		vrt.Assert(err != nil, "faults/input-read-failure-is-reported")
	}
	if writerFaultHit {
		vrt.Assert(err != nil, "faults/output-write-failure-is-reported")
	}
	if err == nil {
		// success ⇒ the output is complete and truthful
		if compact {
			vExpectSeq("faults/success-means-complete-output", m, nil, nil, false, false, false, w.keys, w.vals)
		} else {
			want := 0
			for _, r := range m {
				if want < len(w.keys) {
					vrt.Assert(vrt.EqBytes(w.keys[want], r.k), "faults/success-means-complete-output/key")
					vrt.Assert(vrt.SameBytes(w.vals[want], r.v), "faults/success-means-complete-output/value")
				}
				want++
			}
			vrt.Assert(want == len(w.keys), "faults/success-means-complete-output/count")
		}
	}
	vrt.TraceBool("err", err != nil)
	vrt.Trace("written", uint64(len(w.keys)))
	vrt.Reach("faults/end")
}

// H_C11_WriterFiles: a table is written with the stream writer while every write to ONE of its four files fails
// (engine: the k-th mutating call on the model file system fails; natively: the file name is a symbolic link to
// /dev/full, so the file opens and every write to it fails with "no space left"). The writer must report an error
// from WriteNext or Close - or, where it reports success, the table must read back completely (the bloom filter
// file: the library absorbs its write errors and a table without a readable filter is read without one).
func H_C11_WriterFiles() {
	fs := vEnv()
	defer fs.Cleanup()
	if vrt.Symbolic() {
		writerFilesOne(fs, fs.Path("t"), "")
	} else {
		// natively a write to one of the files fails (a link to /dev/full); the engine's operation number does not
		// name a file, so every file takes its turn on the counterexample's input
		vrt.Range("fault", 0, 23)
		for _, name := range []string{IndexFileName, DataFileName, MetaFileName, BloomFileName} {
			writerFilesOne(fs, fs.Path("t-"+name), name)
		}
	}
	vrt.TraceBool("done", true)
	vrt.Reach("writerfiles/end")
}

func writerFilesOne(fs *vrt.FS, dir string, linked string) {
	fs.MkdirAll(dir)
	keys := [][]byte{{'a'}, {'b'}}
	vals := [][]byte{{vrt.Byte("v0")}, nil}
	hit := false
	if vrt.Symbolic() {
		fs.ArmOpFault(vrt.Range("fault", 0, 23))
	} else {
		if err := os.Symlink("/dev/full", dir+"/"+linked); err != nil {
			panic(err)
		}
		hit = true
	}
	w, err := NewSSTableStreamWriter(WriteBasePath(dir), WithKeyComparator(skiplist.BytesComparator{}), WriteBufferSizeBytes(64))
	vrt.Assert(err == nil, "writerfiles/new-writer-no-error")
	failed := w.Open() != nil
	if !failed {
		for i := range keys {
			if w.WriteNext(keys[i], vals[i]) != nil {
				failed = true
				break
			}
		}
		if w.Close() != nil {
			failed = true
		}
	}
	if vrt.Symbolic() {
		hit = fs.OpFaultHit()
		fs.DisarmOpFault()
	}
	if hit && !failed {
		// success reported although writes failed: then nothing may be missing
		vrt.Reach("writerfiles/fault-absorbed")
		if !vrt.Symbolic() {
			// (the link target cannot be read back - /dev/full reads as endless zeros: what the failed writes
			// leave behind is an empty file, or no filter file)
			os.Remove(dir + "/" + linked)
			if linked != BloomFileName {
				os.WriteFile(dir+"/"+linked, nil, 0o666)
			}
		}
		r, rerr := NewSSTableReader(ReadBasePath(dir), ReadBufferSizeBytes(64))
		vrt.Assert(rerr == nil, "writerfiles/success-reported-means-the-table-opens")
		if rerr == nil {
			for i := range keys {
				got, gerr := r.Get(keys[i])
				vrt.Assert(gerr == nil && vrt.SameBytes(got, vals[i]), "writerfiles/success-reported-means-nothing-is-missing")
			}
			r.Close()
		}
	} else if hit {
		vrt.Reach("writerfiles/fault-reported")
	}
}
