//go:build verif

package gokaitai

import (
	"bytes"
	"encoding/binary"
	"errors"
	"io"

	"github.com/kaitai-io/kaitai_struct_go_runtime/kaitai"
	"github.com/thomasjungblut/go-sstables/recordio"
	"github.com/thomasjungblut/go-sstables/vrt"
)

var vCompTypes = []int{recordio.CompressionTypeNone, recordio.CompressionTypeSnappy, recordio.CompressionTypeGZIP, recordio.CompressionTypeLzw}

// H_C20_Kaitai: the Kaitai-generated reader parses every file the writer produces into the same records
// (count, nil flags, stored payload bytes) the native reader sees; the compression code is known to the schema.
func H_C20_Kaitai() {
	fs := vrt.NewFS()
	defer fs.Cleanup()
	recordio.VInstallContractCompressors()
	comp := vCompTypes[vrt.Choose("comp", len(vCompTypes))]
	if comp != recordio.CompressionTypeNone {
		vrt.Tag("compressed")
	}
	n := vrt.Range("n", 0, 2)
	recs := make([][]byte, n)
	for i := range recs {
		// nil | 0..2 symbolic bytes | a concrete record whose length needs a 2-byte / 3-byte varint
		switch vrt.Choose(vrt.K("r", i, "kind"), 4) {
		case 0:
			recs[i] = vrt.BytesOrNil(vrt.K("r", i), 2)
		case 1:
			recs[i] = vrt.Bytes(vrt.K("r", i), 2)
		case 2:
			recs[i] = vFiller(130 + 70*i)
			vrt.Tag("two-byte-length")
		case 3:
			recs[i] = vFiller(16500)
			vrt.Tag("three-byte-length")
		}
		if recs[i] == nil {
			vrt.Tag("nil-record")
		}
	}
	p := fs.Path("f.rio")
	w, err := recordio.NewFileWriter(recordio.Path(p), recordio.CompressionType(comp), recordio.BufferSizeBytes(64))
	vrt.Assert(err == nil && w.Open() == nil, "kaitai/writer-open")
	var offs []uint64
	for i := range recs {
		off, err := w.Write(recs[i])
		vrt.Assert(err == nil, "kaitai/write-no-error")
		offs = append(offs, off)
	}
	if n > 0 && vrt.Choose("rewind", 2) == 1 {
		// the writer's rollback: back to the start of the last record, something shorter (or nil) in its place
		vrt.Assert(w.Seek(offs[n-1]) == nil, "kaitai/seek-no-error")
		recs[n-1] = vrt.BytesOrNil("rw", 1)
		off, err := w.Write(recs[n-1])
		vrt.Assert(err == nil && off == offs[n-1], "kaitai/rewrite-no-error")
		vrt.Tag("last-record-rewritten")
		vrt.Reach("kaitai/rewound")
	}
	size := w.Size()
	vrt.Assert(w.Close() == nil, "kaitai/writer-close")
	file := fs.ReadFile(p)

	// what the native reader sees
	r, err := recordio.NewFileReader(recordio.ReaderPath(p), recordio.ReaderBufferSizeBytes(64))
	vrt.Assert(err == nil && r.Open() == nil, "kaitai/native-open")
	nativeN := 0
	for {
		rec, err := r.ReadNext()
		if errors.Is(err, io.EOF) {
			break
		}
		vrt.Assert(err == nil, "kaitai/native-read-no-error")
		vrt.Assert(nativeN < n && vrt.SameBytes(rec, recs[nativeN]), "kaitai/native-reader-sees-written-records")
		nativeN++
	}
	r.Close()

	k := NewRecordioV4()
	perr := k.Read(kaitai.NewStream(bytes.NewReader(file)), nil, k)
	vrt.Assert(perr == nil, "kaitai/parse-succeeds")
	if perr == nil {
		vrt.Assert(k.FileHeader.Version == 4, "kaitai/version")
		vrt.Assert(int(k.FileHeader.CompressionType) == comp, "kaitai/compression-code-read")
		vrt.Assert(len(k.Record) == nativeN, "kaitai/same-number-of-records")
		for i := 0; i < len(k.Record) && i < n; i++ {
			kr := k.Record[i]
			vrt.Assert((kr.RecordNil == 1) == (recs[i] == nil), "kaitai/same-nil-flag")
			// stored payload bytes = file bytes from the end of the header to the next record
			next := size
			if i+1 < n {
				next = offs[i+1]
			}
			stored := uint64(0)
			if recs[i] != nil {
				if comp == recordio.CompressionTypeNone {
					stored = uint64(len(recs[i]))
				} else {
					stored = vStoredLen(file, offs[i])
				}
			}
			vrt.Assert(vrt.EqBytes(kr.Payload, file[next-stored:next]), "kaitai/same-stored-payload-bytes")
		}
	}
	known := false
	for _, v := range vrt.EnumValues("github.com/thomasjungblut/go-sstables/kaitai/gokaitai", "RecordioV4_Compression") {
		if int(v) == comp {
			known = true
		}
	}
	vrt.Assert(known, "kaitai/compression-code-known-to-schema")
	vrt.TraceBool("parsed", perr == nil)
	vrt.Reach("kaitai/end")
}

func vFiller(n int) []byte {
	b := make([]byte, n)
	for i := range b {
		b[i] = byte(1 + (i*7)%97)
	}
	return b
}

// vStoredLen decodes the compressed-length varint of the record header at off (marker 3, flag 1, uvarint, uvarint).
func vStoredLen(file []byte, off uint64) uint64 {
	p := off + 4
	for file[p]&0x80 != 0 { // skip the uncompressed length
		p++
	}
	p++
	var v uint64
	var shift uint
	for {
		b := file[p]
		v |= uint64(b&0x7f) << shift
		if b&0x80 == 0 {
			return v
		}
		shift += 7
		p++
	}
}

// H_C20_Vlq: the generated base-128 reader gives every length and checksum field the value the writer encoded
// (encoding/binary's PutUvarint), for every encoding of 1..8 groups - the widths the schema supports.
func H_C20_Vlq() {
	n := vrt.Range("n", 1, 8)
	b := vrt.BytesN("b", n)
	for i := 0; i < n; i++ {
		if i < n-1 {
			vrt.Assume(b[i]&0x80 != 0)
		} else {
			vrt.Assume(b[i]&0x80 == 0)
		}
	}
	if n >= 3 {
		vrt.Reach("vlq/three-or-more-groups")
	}
	v := NewVlqBase128Le()
	err := v.Read(kaitai.NewStream(bytes.NewReader(b)), nil, v)
	vrt.Assert(err == nil, "vlq/read-no-error")
	ln, err := v.Len()
	vrt.Assert(err == nil && ln == n, "vlq/consumes-all-groups")
	val, err := v.Value()
	vrt.Assert(err == nil, "vlq/value-no-error")
	want, m := binary.Uvarint(b)
	vrt.Assert(m == n, "vlq/reference-decodes-all-groups")
	vrt.Assert(uint64(val) == want, "vlq/value-is-what-the-writer-encoded")
	vrt.Trace("value", uint64(val))
	vrt.Reach("vlq/end")
}
