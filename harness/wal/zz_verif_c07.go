//go:build verif

package wal

import (
	"github.com/thomasjungblut/go-sstables/recordio"
	"github.com/thomasjungblut/go-sstables/vrt"
)

func vWalOpts(fs *vrt.FS, dir string, maxSize uint64, wbuf int) *Options {
	opts, err := NewWriteAheadLogOptions(BasePath(dir), MaximumWalFileSizeBytes(maxSize),
		WriterFactory(func(path string) (recordio.WriterI, error) {
			return recordio.VJournaledWriter(fs, path, recordio.CompressionTypeNone, wbuf)
		}),
		ReaderFactory(func(path string) (recordio.ReaderI, error) {
			return recordio.NewFileReader(recordio.ReaderPath(path), recordio.ReaderBufferSizeBytes(16))
		}))
	vrt.Assert(err == nil, "wal/options-no-error")
	return opts
}

var vMaxSizes = []uint64{8, 14, 24, 1000}

type vWalRun struct {
	appended [][]byte
	synced   []int // journal length right after the AppendSync of record i returned (-1: not a sync append)
	syncNo   []int // number of the sync append (for the marks of the fsync watcher), -1: not a sync append
	watch    *vrt.FS
	rotates  int
	// observations of the model file system that have no native counterpart (fsync cannot be seen through the
	// writer seam natively); asserted last, so that a natively reproducible consequence is reported first
	syncReached, syncEndsWithFsync bool
}

// assertSyncs: every synchronous append wrote something and the last thing it did to the file system was an fsync.
// Under the engine the model file system records that; natively the test process traces its own system calls
// (strace) around the program and the marks tell which calls belong to which append.
func (run *vWalRun) assertSyncs() {
	if !vrt.Symbolic() && run.watch != nil {
		run.watch.TraceStop()
		n := 0
		for _, s := range run.syncNo {
			if s < 0 {
				continue
			}
			n++
			b, e := run.watch.Index(vrt.K("b", s)), run.watch.Index(vrt.K("e", s))
			run.syncReached = run.syncReached && e > b
			ends := false
			for _, m := range run.watch.SyncMarks {
				if m == e {
					ends = true
				}
			}
			run.syncEndsWithFsync = run.syncEndsWithFsync && ends
		}
		run.watch = nil
	}
	vrt.Assert(run.syncReached, "wal/sync-append-reaches-the-file")
	vrt.Assert(run.syncEndsWithFsync, "wal/sync-append-ends-with-fsync")
}

// vRunProgram drives the real appender with a program of Append / AppendSync / Rotate.
// vStartWatch (native runs): trace the file-system calls of the test process from here on (before the appender
// opens its first file, so that the trace knows every descriptor).
func vStartWatch(fs *vrt.FS) *vrt.FS {
	if vrt.Symbolic() {
		return nil
	}
	w := fs.Watcher()
	w.NotePreexisting()
	w.TraceStart()
	return w
}

func vRunProgram(fs *vrt.FS, a WriteAheadLogAppendI, steps int, maxRec int, watch *vrt.FS) *vWalRun {
	run := &vWalRun{syncReached: true, syncEndsWithFsync: true, watch: watch}
	n := vrt.Range("steps", 0, steps)
	for s := 0; s < n; s++ {
		switch vrt.Choose(vrt.K("op", s), 3) {
		case 0:
			rec := vrt.BytesOrNil(vrt.K("r", len(run.appended)), maxRec)
			vrt.Assert(a.Append(rec) == nil, "wal/append-no-error")
			run.appended = append(run.appended, rec)
			run.synced = append(run.synced, -1)
			run.syncNo = append(run.syncNo, -1)
		case 1:
			rec := vrt.BytesOrNil(vrt.K("r", len(run.appended)), maxRec)
			before := len(fs.Journal)
			sn := len(run.syncNo)
			if run.watch != nil {
				run.watch.Mark(vrt.K("b", sn))
			}
			vrt.Assert(a.AppendSync(rec) == nil, "wal/append-sync-no-error")
			if run.watch != nil {
				run.watch.Mark(vrt.K("e", sn))
			}
			run.appended = append(run.appended, rec)
			run.synced = append(run.synced, len(fs.Journal))
			run.syncNo = append(run.syncNo, sn)
			if vrt.Symbolic() {
				// sync append = write + flush + fsync before it returns
				run.syncReached = run.syncReached && len(fs.Journal) > before
				run.syncEndsWithFsync = run.syncEndsWithFsync && len(fs.SyncMarks) > 0 && fs.SyncMarks[len(fs.SyncMarks)-1] == len(fs.Journal)
			}
		case 2:
			_, err := a.Rotate()
			vrt.Assert(err == nil, "wal/rotate-no-error")
			run.rotates++
			vrt.Reach("wal/forced-rotation")
		}
	}
	return run
}

// vReplayAll replays dir with the real replayer and returns the delivered records.
func vReplayAll(fs *vrt.FS, dir string, max int) ([][]byte, error) {
	opts := vWalOpts(fs, dir, 1000, 16)
	r, err := NewReplayer(opts)
	vrt.Assert(err == nil, "wal/new-replayer-no-error")
	var got [][]byte
	rerr := r.Replay(func(rec []byte) error {
		got = append(got, append([]byte{}, rec...))
		return nil
	})
	return got, rerr
}

// H_C07_Replay: replay delivers exactly the appended records in order across size-triggered and forced rotations.
func H_C07_Replay() {
	fs := vrt.NewFS()
	defer fs.Cleanup()
	dir := fs.Path([]string{"wal", "wal[1]"}[vrt.Choose("dirname", 2)]) // a directory name may contain pattern characters
	fs.MkdirAll(dir)
	maxSize := vMaxSizes[vrt.Choose("maxsize", len(vMaxSizes))]
	wbuf := []int{4, 64}[vrt.Choose("wbuf", 2)]
	steps := 3
	if vrt.Thorough() {
		steps = 4
	}
	watch := vStartWatch(fs)
	a, err := NewAppender(vWalOpts(fs, dir, maxSize, wbuf))
	vrt.Assert(err == nil, "wal/new-appender-no-error")
	run := vRunProgram(fs, a, steps, 2, watch)
	vrt.Assert(a.Close() == nil, "wal/close-no-error")

	files := fs.List(dir)
	vrt.Assert(len(files) >= run.rotates+1, "wal/one-file-per-rotation-at-least")
	if len(files) > run.rotates+1 {
		vrt.Reach("wal/size-triggered-rotation")
	}
	for i, f := range files {
		want := "00000" + string(rune('0'+i)) + ".wal"
		vrt.Assert(f == want, "wal/file-names-ascend-without-gaps")
	}

	got, rerr := vReplayAll(fs, dir, len(run.appended))
	vrt.Assert(rerr == nil, "wal/replay-no-error")
	vrt.Assert(len(got) == len(run.appended), "wal/replay-delivers-every-record")
	for i := range got {
		if i < len(run.appended) {
			vrt.Assert(vrt.EqBytes(got[i], run.appended[i]), "wal/replay-in-append-order-unchanged")
		}
	}
	run.assertSyncs()
	vrt.Trace("files", uint64(len(files)))
	vrt.Trace("replayed", uint64(len(got)))
	vrt.Reach("wal/end")
}

// H_C07_Crash: after a kill at any system-call boundary replay succeeds and delivers a prefix of the appended
// sequence that contains every record whose synchronous append had returned.
func H_C07_Crash() {
	fs := vrt.NewFS()
	defer fs.Cleanup()
	dir := fs.Path("wal")
	fs.NoJournal = true
	fs.MkdirAll(dir)
	fs.NoJournal = false
	var base *vrt.FS
	if vrt.Symbolic() {
		base = fs.Snapshot()
	}
	_ = base
	maxSize := vMaxSizes[vrt.Choose("maxsize", len(vMaxSizes))]
	wbuf := []int{4, 9, 64}[vrt.Choose("wbuf", 3)]
	steps := 3
	if vrt.Thorough() {
		steps = 4
	}
	watch := vStartWatch(fs)
	a, err := NewAppender(vWalOpts(fs, dir, maxSize, wbuf))
	vrt.Assert(err == nil, "walcrash/new-appender-no-error")
	run := vRunProgram(fs, a, steps, 2, watch)
	// kill: no Close. The crash point is any prefix of the journal.
	k := vrt.Range("crash", 0, len(fs.Journal))
	if k < len(fs.Journal) {
		vrt.Reach("walcrash/kill-before-last-syscall")
	}
	img := fs.Image(k, base, []string{dir})
	defer img.Cleanup()
	idir := fs.Rebase(img, dir)

	got, rerr := vReplayAll(img, idir, len(run.appended))
	vrt.Assert(rerr == nil, "walcrash/replay-succeeds-after-kill")
	vrt.Assert(len(got) <= len(run.appended), "walcrash/replay-delivers-only-appended-records")
	for i := range got {
		if i < len(run.appended) {
			vrt.Assert(vrt.EqBytes(got[i], run.appended[i]), "walcrash/replay-is-a-prefix-in-order")
		}
	}
	for i, j := range run.synced {
		if j >= 0 && j <= k {
			vrt.Assert(i < len(got), "walcrash/synced-append-survives-kill")
		}
	}
	run.assertSyncs()
	vrt.TraceBool("replay.err", rerr != nil)
	vrt.Trace("replayed", uint64(len(got)))
	vrt.Reach("walcrash/end")
}
