//go:build verif

// Package vrt is the harness vocabulary ("nondet / assume / assert") shared by
// every harness. It is never part of /repo: the files are injected by
// go/packages' Overlay (symbolic run) and by `go test -overlay` (native
// replay). Under the symbolic engine the functions marked INTERCEPTED are
// replaced by engine primitives; natively they read a JSON input vector.
package vrt

import (
	"encoding/json"
	"fmt"
	"os"
	"strconv"
	"sync"
)

type vectorFile struct {
	Vector map[string]uint64 `json:"vector"`
}

var (
	mu       sync.Mutex
	loaded   bool
	vec      map[string]uint64
	Failures []string
	Traces   []string
	Reached  []string
	Tags     []string
	expectP  string
)

func load() {
	if loaded {
		return
	}
	loaded = true
	vec = map[string]uint64{}
	if p := os.Getenv("VERIF_VECTOR"); p != "" {
		b, err := os.ReadFile(p)
		if err != nil {
			panic(err)
		}
		var vf vectorFile
		if err := json.Unmarshal(b, &vf); err != nil {
			panic(err)
		}
		if vf.Vector != nil {
			vec = vf.Vector
		}
	}
}

func get(k string) uint64 {
	mu.Lock()
	defer mu.Unlock()
	load()
	return vec[k]
}

// Reset clears recorded results (native replay of several vectors in one process).
func Reset(v map[string]uint64) {
	mu.Lock()
	defer mu.Unlock()
	loaded = true
	vec = v
	Failures, Traces, Reached, Tags = nil, nil, nil, nil
	expectP = ""
}

// Symbolic reports whether the harness runs under the symbolic engine. INTERCEPTED.
func Symbolic() bool { return false }

// Byte returns an arbitrary byte. INTERCEPTED.
func Byte(k string) byte { return byte(get(k)) }

// U16, U32, U64 return arbitrary unsigned values. INTERCEPTED.
func U16(k string) uint16 { return uint16(get(k)) }
func U32(k string) uint32 { return uint32(get(k)) }
func U64(k string) uint64 { return get(k) }

// Bool returns an arbitrary boolean. INTERCEPTED.
func Bool(k string) bool { return get(k) != 0 }

// Int returns an arbitrary int with lo <= v <= hi that stays symbolic. INTERCEPTED.
func Int(k string, lo, hi int) int {
	v := int(int64(get(k)))
	if v < lo || v > hi {
		panic(fmt.Sprintf("vrt.Int(%s): %d outside [%d,%d]", k, v, lo, hi))
	}
	return v
}

// Choose returns a value in [0,n): every value is explored (fork). INTERCEPTED.
func Choose(k string, n int) int {
	v := int(get(k))
	if v < 0 || v >= n {
		panic(fmt.Sprintf("vrt.Choose(%s): %d outside [0,%d)", k, v, n))
	}
	return v
}

// Range returns a concrete value lo..hi: every value is explored (fork).
func Range(k string, lo, hi int) int {
	if hi < lo {
		Assume(false)
	}
	return lo + Choose(k, hi-lo+1)
}

// RangeClamp is Range for bounds that depend on something the native run computes differently (sizes of files written
// through a stand-in under the engine): natively a value beyond the range is taken as the upper bound.
func RangeClamp(k string, lo, hi int) int {
	if Symbolic() {
		return Range(k, lo, hi)
	}
	v := int(get(k))
	if v > hi-lo {
		v = hi - lo
	}
	return lo + v
}

// Concrete case-splits a symbolic int into its feasible concrete values. INTERCEPTED.
func Concrete(x int) int { return x }

type assumeFailed struct{}

// Assume restricts the inputs considered. INTERCEPTED.
func Assume(c bool) {
	if !c {
		panic(assumeFailed{})
	}
}

// Assert states the property. INTERCEPTED.
func Assert(c bool, id string) {
	if !c {
		mu.Lock()
		Failures = append(Failures, id)
		mu.Unlock()
	}
}

// Reach marks a region that must be reachable (vacuity witness). INTERCEPTED.
func Reach(id string) {
	mu.Lock()
	Reached = append(Reached, id)
	mu.Unlock()
}

// Tag labels the path (known-finding matching). INTERCEPTED.
func Tag(s string) {
	mu.Lock()
	Tags = append(Tags, s)
	mu.Unlock()
}

// Trace records an observable for native/symbolic agreement. INTERCEPTED.
func Trace(k string, v uint64) {
	mu.Lock()
	Traces = append(Traces, k+"="+strconv.FormatUint(v, 10))
	mu.Unlock()
}

func TraceBool(k string, b bool) {
	if b {
		Trace(k, 1)
	} else {
		Trace(k, 0)
	}
}

// TraceBytes records a byte string (nil is distinguished from empty).
func TraceBytes(k string, b []byte) {
	if b == nil {
		Trace(k+".nil", 1)
		return
	}
	Trace(k+".len", uint64(len(b)))
	for i, c := range b {
		Trace(k+"."+strconv.Itoa(i), uint64(c))
	}
}

// ExpectPanic declares that a Go panic on this path is the documented outcome. INTERCEPTED.
func ExpectPanic(id string) { expectP = id }

// Redirect replaces the function called name (ssa full name) by fn while the
// harness runs symbolically; natively it does nothing. INTERCEPTED.
func Redirect(name string, fn any) {}

// OnSync / OnBlock install the harness scheduler callbacks. INTERCEPTED.
func OnSync(fn func(kind string))  {}
func OnBlock(fn func(what string)) {}

// LocksHeld: number of mutexes the current (model) thread holds; 0 natively. INTERCEPTED.
func LocksHeld() int { return 0 }

// MutexFree: nobody (no model thread) holds the mutex behind the pointer; true natively. INTERCEPTED.
func MutexFree(mutexPtr any) bool { return true }

// Freeze marks everything reachable from the given roots as shared state:
// an unlocked store into it afterwards is reported. INTERCEPTED.
func Freeze(roots ...any) {}

// SharedWrites returns what was stored into frozen state since Freeze. INTERCEPTED.
func SharedWrites() []string { return nil }

// Fail records a failure natively and ends the path symbolically as a violation.
func Fail(id string) { Assert(false, id) }

// K builds a key from parts.
func K(parts ...any) string {
	s := ""
	for i, p := range parts {
		if i > 0 {
			s += "."
		}
		switch x := p.(type) {
		case string:
			s += x
		case int:
			s += strconv.Itoa(x)
		default:
			s += "?"
		}
	}
	return s
}

// Bytes returns an arbitrary byte string of length 0..maxLen (length is case-split).
func Bytes(k string, maxLen int) []byte {
	n := Range(k+".len", 0, maxLen)
	b := make([]byte, n)
	for i := range b {
		b[i] = Byte(k + "." + strconv.Itoa(i))
	}
	return b
}

// BytesN returns exactly n arbitrary bytes.
func BytesN(k string, n int) []byte {
	b := make([]byte, n)
	for i := range b {
		b[i] = Byte(k + "." + strconv.Itoa(i))
	}
	return b
}

// BytesOrNil is Bytes plus the nil slice.
func BytesOrNil(k string, maxLen int) []byte {
	if Choose(k+".nil", 2) == 1 {
		return nil
	}
	return Bytes(k, maxLen)
}

// SameBytes compares with nil distinguished from empty.
func SameBytes(a, b []byte) bool {
	if (a == nil) != (b == nil) {
		return false
	}
	if len(a) != len(b) {
		return false
	}
	for i := range a {
		if a[i] != b[i] {
			return false
		}
	}
	return true
}

// EqBytes compares contents only.
func EqBytes(a, b []byte) bool {
	if len(a) != len(b) {
		return false
	}
	for i := range a {
		if a[i] != b[i] {
			return false
		}
	}
	return true
}

// And, Or, Not, Implies build the condition without branching. INTERCEPTED (term builders).
func And(a, b bool) bool     { return a && b }
func Or(a, b bool) bool      { return a || b }
func Implies(a, b bool) bool { return !a || b }

// IteU64 selects without branching. INTERCEPTED.
func IteU64(c bool, a, b uint64) uint64 {
	if c {
		return a
	}
	return b
}

// CmpBytes is bytes.Compare. INTERCEPTED (term builder).
func CmpBytes(a, b []byte) int {
	n := len(a)
	if len(b) < n {
		n = len(b)
	}
	for i := 0; i < n; i++ {
		if a[i] != b[i] {
			if a[i] < b[i] {
				return -1
			}
			return 1
		}
	}
	switch {
	case len(a) < len(b):
		return -1
	case len(a) > len(b):
		return 1
	}
	return 0
}

// Thorough reports the tier (VERIF_TIER=thorough). INTERCEPTED.
func Thorough() bool { return os.Getenv("VERIF_TIER") == "thorough" }

// RandPromoteBudget bounds how often in a row the skip list's coin flip
// (rand.Int()%4 == 0) may come up "promote"; symbolic engine only. INTERCEPTED.
func RandPromoteBudget(k int) {}

// Note records free text with the path (shown with a counterexample). INTERCEPTED.
func Note(s string) {
	mu.Lock()
	Traces = append(Traces, "note:"+s)
	mu.Unlock()
	fmt.Println("VRT-NOTE " + s)
}

// Watch registers a memory location (pass its address) for lock-set checking; WatchOn switches the recording
// on and off; WatchReport returns the locations that are written while watching and have no lock that is held
// at every access (exclusively at every write). Symbolic engine only. INTERCEPTED.
func Watch(ptr any, name string) {}
func WatchOn(on bool)            {}
func WatchReport() []string      { return nil }

// RunAs runs fn as another thread with respect to lock ownership (the engine is single threaded; background
// steps that the harness scheduler runs must not inherit the client's locks). INTERCEPTED.
func RunAs(thread int, fn func()) { fn() }

// TryRunAs is RunAs, except that under the engine a call that has to wait for a lock of another model thread
// before it has done anything is abandoned: false is returned and the caller tries again later (in a real run the
// call would wait at that point). INTERCEPTED.
func TryRunAs(thread int, fn func()) bool { fn(); return true }
