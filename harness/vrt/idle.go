//go:build verif

package vrt

import (
	"runtime"
	"strings"
	"time"
)

// WaitGoroutineIdle (native runs only) waits until the goroutine whose stack contains fn is blocked in a channel
// receive or has exited, i.e. the background worker has finished what it was handed. Under the symbolic engine
// there are no goroutines and this returns at once. INTERCEPTED.
func WaitGoroutineIdle(fn string) {
	deadline := time.Now().Add(10 * time.Second)
	buf := make([]byte, 1<<20)
	for time.Now().Before(deadline) {
		n := runtime.Stack(buf, true)
		idle := true
		for _, g := range strings.Split(string(buf[:n]), "\n\n") {
			if strings.Contains(g, fn) {
				hdr := g
				if i := strings.IndexByte(g, '\n'); i >= 0 {
					hdr = g[:i]
				}
				if !strings.Contains(hdr, "chan receive") {
					idle = false
				}
			}
		}
		if idle {
			return
		}
		time.Sleep(200 * time.Microsecond)
	}
}

// GoroutineStates (native runs only) returns the scheduler state ("chan send", "chan receive", "running",
// "sync.RWMutex.RLock", ...) of every goroutine whose stack trace contains all of subs.
func GoroutineStates(subs ...string) []string {
	buf := make([]byte, 1<<20)
	n := runtime.Stack(buf, true)
	var out []string
next:
	for _, g := range strings.Split(string(buf[:n]), "\n\n") {
		for _, s := range subs {
			if !strings.Contains(g, s) {
				continue next
			}
		}
		hdr := g
		if i := strings.IndexByte(g, '\n'); i >= 0 {
			hdr = g[:i]
		}
		st := ""
		if i := strings.IndexByte(hdr, '['); i >= 0 {
			st = strings.TrimSuffix(hdr[i+1:], "]:")
			// "chan receive, 2 minutes" -> "chan receive"
			if j := strings.IndexByte(st, ','); j >= 0 {
				st = st[:j]
			}
		}
		out = append(out, st)
	}
	return out
}

// Parked: the state of a goroutine that cannot run until somebody else acts.
func Parked(state string) bool {
	switch state {
	case "running", "runnable", "syscall", "":
		return false
	}
	return true
}
