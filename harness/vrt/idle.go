//go:build verif

package vrt

import (
	"runtime"
	"strings"
	"time"
)

// WaitGoroutineIdle (native runs only) waits until the goroutine whose stack contains fn is blocked in a channel
// receive or has exited, i.e. the background worker has finished what it was handed. Under the symbolic engine
// there are no goroutines and this returns at once. INTERCEPTED.
func WaitGoroutineIdle(fn string) {
	deadline := time.Now().Add(10 * time.Second)
	buf := make([]byte, 1<<20)
	for time.Now().Before(deadline) {
		n := runtime.Stack(buf, true)
		idle := true
		for _, g := range strings.Split(string(buf[:n]), "\n\n") {
			if strings.Contains(g, fn) {
				hdr := g
				if i := strings.IndexByte(g, '\n'); i >= 0 {
					hdr = g[:i]
				}
				if !strings.Contains(hdr, "chan receive") {
					idle = false
				}
			}
		}
		if idle {
			return
		}
		time.Sleep(200 * time.Microsecond)
	}
}
