//go:build verif

package vrt

// Model file system. Under the symbolic engine os.* / mmap.Open / filepath.Walk
// are redirected to an in-memory tree whose file contents may hold symbolic
// bytes; every mutating call is journalled so that a crash image (= a journal
// prefix replayed on the initial image) can be built. Natively the same API
// works on a real temporary directory.

import (
	"errors"
	"io"
	"io/fs"
	"os"
	"path/filepath"
	"sort"
	"strings"
	"time"

	"golang.org/x/exp/mmap"
)

type OpKind int

const (
	OpCreate OpKind = iota
	OpWrite
	OpTruncate
	OpRename
	OpUnlink
	OpMkdir
	OpRmdir
	OpFsync
)

var opNames = []string{"create", "write", "truncate", "rename", "unlink", "mkdir", "rmdir", "fsync"}

func (k OpKind) String() string { return opNames[k] }

type Op struct {
	Kind  OpKind
	Path  string
	Path2 string
	Off   int64
	Data  []byte
	Size  int64
}

type node struct {
	path string
	dir  bool
	data []byte
}

type FS struct {
	Root        string
	sym         bool
	nodes       []*node
	Journal     []Op
	OpenHandles int
	OpenMaps    int
	// fault injection: the n-th (0-based) Write call on any file fails; -1 = never
	FailWriteAt int
	ShortWrite  bool // the failing write stores a prefix of one byte less than asked
	writes      int
	faultArmedAt int
	// FailOpAt: the n-th (0-based) mutating call of any kind (create, write, truncate, rename, unlink, rmdir,
	// mkdir) fails without effect; -1 = never
	FailOpAt int
	mutOps   int
	opHit    bool
	tmpN        int
	// listing order of directories: 0 = sorted (what the OS gives for os.ReadDir), 1 = reverse creation order
	WalkReverse bool
	// NoJournal turns journalling off (set-up phases)
	NoJournal bool
	// SyncMarks[i] = len(Journal) when the i-th fsync was issued, SyncPaths[i] its file (symbolic engine only)
	SyncMarks []int
	SyncPaths []string

	tr          *traceState
	marks       map[string]int
	preexisting map[string]bool
}

var ErrInjected = errors.New("injected I/O failure")

// NewFS returns a fresh file system; under the symbolic engine it installs the redirects.
func NewFS() *FS {
	f := &FS{FailWriteAt: -1, FailOpAt: -1}
	if Symbolic() {
		f.sym = true
		f.Root = "/vfs"
		f.nodes = append(f.nodes, &node{path: "/", dir: true}, &node{path: "/vfs", dir: true})
		f.install()
		return f
	}
	d, err := os.MkdirTemp(tmpBase, "verif-fs-")
	if err != nil {
		panic(err)
	}
	f.Root = d
	return f
}

// Cleanup removes the native temporary directory.
func (f *FS) Cleanup() {
	if !f.sym {
		os.RemoveAll(f.Root)
	}
}

func (f *FS) Path(rel string) string { return filepath.Join(f.Root, rel) }

func (f *FS) journal(op Op) {
	if !f.NoJournal {
		f.Journal = append(f.Journal, op)
	}
}

// opFault counts a mutating call and reports whether it is the one to fail.
func (f *FS) opFault() bool {
	if f.NoJournal {
		return false
	}
	hit := f.FailOpAt >= 0 && f.mutOps == f.FailOpAt
	f.mutOps++
	if hit {
		f.opHit = true
	}
	return hit
}

// ArmOpFault makes the k-th mutating file-system call from now fail (symbolic engine only).
func (f *FS) ArmOpFault(k int) { f.FailOpAt = f.mutOps + k; f.opHit = false }

// OpFaultHit reports whether the armed failure was delivered; DisarmOpFault switches it off.
func (f *FS) OpFaultHit() bool { return f.opHit }
func (f *FS) DisarmOpFault()   { f.FailOpAt = -1 }

func (f *FS) lookup(p string) *node {
	p = filepath.Clean(p)
	for _, n := range f.nodes {
		if n.path == p {
			return n
		}
	}
	return nil
}

func (f *FS) removeNode(n *node) {
	for i, x := range f.nodes {
		if x == n {
			f.nodes = append(f.nodes[:i], f.nodes[i+1:]...)
			return
		}
	}
}

func (f *FS) children(dir string) []*node {
	dir = filepath.Clean(dir)
	var out []*node
	for _, n := range f.nodes {
		if n.path != dir && filepath.Dir(n.path) == dir {
			out = append(out, n)
		}
	}
	return out
}

func notExist(op, p string) error { return &fs.PathError{Op: op, Path: p, Err: fs.ErrNotExist} }

// ---- inspection API (both modes) ----

func (f *FS) ReadFile(p string) []byte {
	if f.sym {
		n := f.lookup(p)
		if n == nil || n.dir {
			return nil
		}
		return append([]byte{}, n.data...)
	}
	b, err := os.ReadFile(p)
	if err != nil {
		return nil
	}
	if b == nil {
		b = []byte{}
	}
	return b
}

func (f *FS) Exists(p string) bool {
	if f.sym {
		return f.lookup(p) != nil
	}
	_, err := os.Stat(p)
	return err == nil
}

// WriteFile sets the whole content (not journalled: used to build damaged copies).
func (f *FS) WriteFile(p string, data []byte) {
	if f.sym {
		n := f.lookup(p)
		if n == nil {
			n = &node{path: filepath.Clean(p)}
			f.nodes = append(f.nodes, n)
		}
		n.data = append([]byte{}, data...)
		return
	}
	if err := os.WriteFile(p, data, 0o666); err != nil {
		panic(err)
	}
}

func (f *FS) FileSize(p string) int {
	if f.sym {
		n := f.lookup(p)
		if n == nil {
			return -1
		}
		return len(n.data)
	}
	st, err := os.Stat(p)
	if err != nil {
		return -1
	}
	return int(st.Size())
}

// List returns the sorted base names in dir.
func (f *FS) List(dir string) []string {
	var out []string
	if f.sym {
		for _, n := range f.children(dir) {
			out = append(out, filepath.Base(n.path))
		}
	} else {
		es, _ := os.ReadDir(dir)
		for _, e := range es {
			out = append(out, e.Name())
		}
	}
	sort.Strings(out)
	return out
}

// MkdirAll for set-up (journalled like the real call).
func (f *FS) MkdirAll(p string) {
	if f.sym {
		f.mkdirAll(p)
		return
	}
	if err := os.MkdirAll(p, 0o777); err != nil {
		panic(err)
	}
}

// ---- symbolic side: the file object behind *os.File handles ----

type MemHandle struct {
	fs     *FS
	n      *node
	name   string
	pos    int64
	closed bool
	write  bool
	mapped bool
	unmapped bool // mapped handle of an empty file: nothing is mapped
}

func (h *MemHandle) Name() string { return h.name }

func (h *MemHandle) Write(b []byte) (int, error) {
	if h.closed {
		return 0, fs.ErrClosed
	}
	f := h.fs
	if f.opFault() {
		return 0, ErrInjected
	}
	if f.FailWriteAt >= 0 && f.writes == f.FailWriteAt {
		f.writes++
		if f.ShortWrite && len(b) > 1 {
			h.writeAt(b[:len(b)-1])
			return len(b) - 1, ErrInjected
		}
		return 0, ErrInjected
	}
	f.writes++
	h.writeAt(b)
	return len(b), nil
}

// WriteAt is (*os.File).WriteAt: the handle's position stays where it is.
func (h *MemHandle) WriteAt(b []byte, off int64) (int, error) {
	if h.closed {
		return 0, fs.ErrClosed
	}
	if off < 0 {
		return 0, errors.New("writeat: negative offset")
	}
	f := h.fs
	if f.opFault() {
		return 0, ErrInjected
	}
	if f.FailWriteAt >= 0 && f.writes == f.FailWriteAt {
		f.writes++
		return 0, ErrInjected
	}
	f.writes++
	pos := h.pos
	h.pos = off
	h.writeAt(b)
	h.pos = pos
	return len(b), nil
}

func (h *MemHandle) writeAt(b []byte) {
	n := h.n
	end := int(h.pos) + len(b)
	for len(n.data) < end {
		n.data = append(n.data, 0)
	}
	copy(n.data[h.pos:], b)
	h.fs.journal(Op{Kind: OpWrite, Path: n.path, Off: h.pos, Data: append([]byte{}, b...)})
	h.pos = int64(end)
}

func (h *MemHandle) Read(b []byte) (int, error) {
	if h.closed {
		return 0, fs.ErrClosed
	}
	if int(h.pos) >= len(h.n.data) {
		if len(b) == 0 {
			return 0, nil
		}
		return 0, io.EOF
	}
	c := copy(b, h.n.data[h.pos:])
	h.pos += int64(c)
	return c, nil
}

func (h *MemHandle) ReadAt(b []byte, off int64) (int, error) {
	if h.closed {
		if h.mapped {
			return 0, errors.New("mmap: closed")
		}
		return 0, fs.ErrClosed
	}
	if h.mapped {
		// golang.org/x/exp/mmap.(*ReaderAt).ReadAt
		if off < 0 || int64(len(h.n.data)) < off {
			return 0, errors.New("mmap: invalid ReadAt offset")
		}
		c := copy(b, h.n.data[off:])
		if c < len(b) {
			return c, io.EOF
		}
		return c, nil
	}
	if off < 0 {
		return 0, errors.New("negative offset")
	}
	if len(b) == 0 {
		return 0, nil
	}
	if int(off) >= len(h.n.data) {
		return 0, io.EOF
	}
	c := copy(b, h.n.data[off:])
	if c < len(b) {
		return c, io.EOF
	}
	return c, nil
}

func (h *MemHandle) Seek(off int64, whence int) (int64, error) {
	if h.closed {
		return 0, fs.ErrClosed
	}
	var np int64
	switch whence {
	case io.SeekStart:
		np = off
	case io.SeekCurrent:
		np = h.pos + off
	case io.SeekEnd:
		np = int64(len(h.n.data)) + off
	}
	if np < 0 {
		return 0, errors.New("negative position")
	}
	h.pos = np
	return np, nil
}

func (h *MemHandle) Truncate(size int64) error {
	if h.closed {
		return fs.ErrClosed
	}
	if h.fs.opFault() {
		return ErrInjected
	}
	n := h.n
	if int(size) <= len(n.data) {
		n.data = n.data[:size]
	} else {
		for len(n.data) < int(size) {
			n.data = append(n.data, 0)
		}
	}
	h.fs.journal(Op{Kind: OpTruncate, Path: n.path, Size: size})
	return nil
}

func (h *MemHandle) Sync() error {
	if h.closed {
		return fs.ErrClosed
	}
	// fsync is not a mutation: it is recorded as a mark (journal length at the time), so that the journal
	// has the same length natively, where fsync cannot be observed through the writer seam
	h.fs.SyncMarks = append(h.fs.SyncMarks, len(h.fs.Journal))
	h.fs.SyncPaths = append(h.fs.SyncPaths, h.n.path)
	return nil
}

func (h *MemHandle) Close() error {
	if h.closed {
		if h.mapped {
			return nil // like mmap.ReaderAt.Close: closing a closed mapping is not an error
		}
		return fs.ErrClosed
	}
	h.closed = true
	if h.mapped {
		if !h.unmapped {
			h.fs.OpenMaps--
		}
	} else {
		h.fs.OpenHandles--
	}
	return nil
}

func (h *MemHandle) Stat() (os.FileInfo, error) { return memInfo{h.n}, nil }

// mmap.ReaderAt surface
func (h *MemHandle) Len() int        { return len(h.n.data) }
func (h *MemHandle) At(i int) byte   { return h.n.data[i] }

type memInfo struct{ n *node }

func (m memInfo) Name() string { return filepath.Base(m.n.path) }
func (m memInfo) Size() int64  { return int64(len(m.n.data)) }
func (m memInfo) Mode() os.FileMode {
	if m.n.dir {
		return os.ModeDir | 0o777
	}
	return 0o666
}
func (m memInfo) ModTime() time.Time { return time.Time{} }
func (m memInfo) IsDir() bool        { return m.n.dir }
func (m memInfo) Sys() any           { return nil }

type memDirEntry struct{ memInfo }

func (m memDirEntry) Type() os.FileMode          { return m.Mode().Type() }
func (m memDirEntry) Info() (os.FileInfo, error) { return m.memInfo, nil }

func (f *FS) openFile(name string, flag int, perm os.FileMode) (*os.File, error) {
	p := filepath.Clean(name)
	n := f.lookup(p)
	if n == nil {
		if flag&os.O_CREATE == 0 {
			return nil, notExist("open", name)
		}
		parent := f.lookup(filepath.Dir(p))
		if parent == nil || !parent.dir {
			return nil, notExist("open", name)
		}
		if f.opFault() {
			return nil, ErrInjected
		}
		n = &node{path: p}
		f.nodes = append(f.nodes, n)
		f.journal(Op{Kind: OpCreate, Path: p})
	} else if n.dir {
		// directories can be opened read-only; nothing in the code under test does
		return nil, &fs.PathError{Op: "open", Path: name, Err: errors.New("is a directory")}
	}
	if flag&os.O_TRUNC != 0 && len(n.data) > 0 {
		n.data = n.data[:0]
		f.journal(Op{Kind: OpTruncate, Path: p, Size: 0})
	}
	h := &MemHandle{fs: f, n: n, name: name, write: flag&(os.O_WRONLY|os.O_RDWR) != 0}
	if flag&os.O_APPEND != 0 {
		h.pos = int64(len(n.data))
	}
	f.OpenHandles++
	return HandleFile(h), nil
}

func (f *FS) mmapOpen(name string) (*mmap.ReaderAt, error) {
	n := f.lookup(name)
	if n == nil || n.dir {
		return nil, notExist("open", name)
	}
	h := &MemHandle{fs: f, n: n, name: name, mapped: true}
	if len(n.data) == 0 {
		// like the real mmap.Open: an empty file is not mapped at all, there is nothing to release
		h.unmapped = true
	} else {
		f.OpenMaps++
	}
	return HandleMmap(h), nil
}

func (f *FS) mkdir(p string) error {
	p = filepath.Clean(p)
	if f.lookup(p) != nil {
		return &fs.PathError{Op: "mkdir", Path: p, Err: fs.ErrExist}
	}
	parent := f.lookup(filepath.Dir(p))
	if parent == nil || !parent.dir {
		return notExist("mkdir", p)
	}
	if f.opFault() {
		return ErrInjected
	}
	f.nodes = append(f.nodes, &node{path: p, dir: true})
	f.journal(Op{Kind: OpMkdir, Path: p})
	return nil
}

func (f *FS) mkdirAll(p string) error {
	p = filepath.Clean(p)
	if n := f.lookup(p); n != nil {
		if n.dir {
			return nil
		}
		return &fs.PathError{Op: "mkdir", Path: p, Err: errors.New("not a directory")}
	}
	if parent := filepath.Dir(p); parent != p {
		if err := f.mkdirAll(parent); err != nil {
			return err
		}
	}
	return f.mkdir(p)
}

func (f *FS) remove(p string) error {
	n := f.lookup(p)
	if n == nil {
		return notExist("remove", p)
	}
	if n.dir {
		if len(f.children(n.path)) > 0 {
			return &fs.PathError{Op: "remove", Path: p, Err: errors.New("directory not empty")}
		}
		if f.opFault() {
			return ErrInjected
		}
		f.removeNode(n)
		f.journal(Op{Kind: OpRmdir, Path: n.path})
		return nil
	}
	if f.opFault() {
		return ErrInjected
	}
	f.removeNode(n)
	f.journal(Op{Kind: OpUnlink, Path: n.path})
	return nil
}

// removeAll: one unlink per entry, in an order chosen by the harness (Choose), then rmdir.
func (f *FS) removeAll(p string) error {
	n := f.lookup(p)
	if n == nil {
		return nil
	}
	if n.dir {
		for {
			kids := f.children(n.path)
			if len(kids) == 0 {
				break
			}
			pick := 0
			if f.WalkReverse {
				pick = len(kids) - 1
			}
			if err := f.removeAll(kids[pick].path); err != nil {
				return err
			}
		}
	}
	return f.remove(n.path)
}

func (f *FS) rename(oldp, newp string) error {
	o := f.lookup(oldp)
	if o == nil {
		return notExist("rename", oldp)
	}
	newp = filepath.Clean(newp)
	if t := f.lookup(newp); t != nil {
		if t.dir {
			if !o.dir || len(f.children(t.path)) > 0 {
				return &fs.PathError{Op: "rename", Path: newp, Err: errors.New("file exists")}
			}
			f.removeNode(t)
		} else {
			if o.dir {
				return &fs.PathError{Op: "rename", Path: newp, Err: errors.New("not a directory")}
			}
			f.removeNode(t)
		}
	}
	parent := f.lookup(filepath.Dir(newp))
	if parent == nil || !parent.dir {
		return notExist("rename", newp)
	}
	if f.opFault() {
		return ErrInjected
	}
	oldClean := o.path
	for _, x := range f.nodes {
		if x.path == oldClean {
			x.path = newp
		} else if strings.HasPrefix(x.path, oldClean+"/") {
			x.path = newp + x.path[len(oldClean):]
		}
	}
	f.journal(Op{Kind: OpRename, Path: oldClean, Path2: newp})
	return nil
}

func (f *FS) stat(p string) (os.FileInfo, error) {
	n := f.lookup(p)
	if n == nil {
		return nil, notExist("stat", p)
	}
	return memInfo{n}, nil
}

func (f *FS) readDir(p string) ([]os.DirEntry, error) {
	n := f.lookup(p)
	if n == nil || !n.dir {
		return nil, notExist("open", p)
	}
	kids := f.children(n.path)
	sort.Slice(kids, func(i, j int) bool { return kids[i].path < kids[j].path })
	var out []os.DirEntry
	for _, k := range kids {
		out = append(out, memDirEntry{memInfo{k}})
	}
	return out, nil
}

// walk: filepath.Walk semantics (lexical order, which is what the real one guarantees).
func (f *FS) walk(root string, fn filepath.WalkFunc) error {
	n := f.lookup(root)
	if n == nil {
		return fn(root, nil, notExist("lstat", root))
	}
	return f.walkNode(n, fn)
}

func (f *FS) walkNode(n *node, fn filepath.WalkFunc) error {
	err := fn(n.path, memInfo{n}, nil)
	if err != nil {
		if n.dir && err == filepath.SkipDir {
			return nil
		}
		return err
	}
	if !n.dir {
		return nil
	}
	kids := f.children(n.path)
	sort.Slice(kids, func(i, j int) bool { return kids[i].path < kids[j].path })
	for _, k := range kids {
		if f.lookup(k.path) == nil {
			continue // removed by the callback meanwhile
		}
		if err := f.walkNode(k, fn); err != nil {
			if err == filepath.SkipDir {
				if !k.dir {
					return nil
				}
				continue
			}
			return err
		}
	}
	return nil
}

func (f *FS) mkdirTemp(dir, pattern string) (string, error) {
	if dir == "" {
		dir = f.Root
	}
	f.tmpN++
	name := strings.Replace(pattern, "*", "", 1) + "tmp" + K(f.tmpN)
	if strings.Contains(pattern, "*") {
		name = strings.Replace(pattern, "*", "tmp"+K(f.tmpN), 1)
	}
	p := filepath.Join(dir, name)
	if err := f.mkdir(p); err != nil {
		return "", err
	}
	return p, nil
}

// createTemp: os.CreateTemp on the model (deterministic names, like mkdirTemp).
func (f *FS) createTemp(dir, pattern string) (*os.File, error) {
	if dir == "" {
		dir = f.Root
	}
	f.tmpN++
	name := pattern + "tmp" + K(f.tmpN)
	if strings.Contains(pattern, "*") {
		name = strings.Replace(pattern, "*", "tmp"+K(f.tmpN), 1)
	}
	return f.openFile(filepath.Join(dir, name), os.O_RDWR|os.O_CREATE|os.O_EXCL, 0o600)
}

// glob: filepath.Glob for patterns whose directory part has no metacharacters.
func (f *FS) glob(pattern string) ([]string, error) {
	if _, err := filepath.Match(pattern, ""); err != nil {
		return nil, err
	}
	if !strings.ContainsAny(pattern, `*?[\`) {
		if f.lookup(pattern) == nil {
			return nil, nil
		}
		return []string{pattern}, nil
	}
	dir, file := filepath.Split(pattern)
	dir = filepath.Clean(dir)
	// like the real Glob, the directory part is a pattern too: a directory whose name contains '[' is only found
	// if the pattern (read as a pattern) matches it
	dirs := []string{dir}
	if strings.ContainsAny(dir, `*?[\`) {
		var err error
		dirs, err = f.glob(dir)
		if err != nil {
			return nil, err
		}
	}
	var out []string
	for _, d := range dirs {
		for _, n := range f.children(d) {
			if ok, _ := filepath.Match(file, filepath.Base(n.path)); ok {
				out = append(out, n.path)
			}
		}
	}
	sort.Strings(out)
	return out, nil
}

func (f *FS) install() {
	Redirect("os.CreateTemp", f.createTemp)
	Redirect("path/filepath.Glob", f.glob)
	Redirect("os.OpenFile", f.openFile)
	Redirect("os.Open", func(name string) (*os.File, error) { return f.openFile(name, os.O_RDONLY, 0) })
	Redirect("os.Create", func(name string) (*os.File, error) {
		return f.openFile(name, os.O_RDWR|os.O_CREATE|os.O_TRUNC, 0o666)
	})
	Redirect("os.Remove", f.remove)
	Redirect("os.RemoveAll", f.removeAll)
	Redirect("os.Rename", f.rename)
	Redirect("os.Mkdir", func(p string, perm os.FileMode) error { return f.mkdir(p) })
	Redirect("os.MkdirAll", func(p string, perm os.FileMode) error { return f.mkdirAll(p) })
	Redirect("os.MkdirTemp", f.mkdirTemp)
	Redirect("os.Stat", f.stat)
	Redirect("os.Lstat", f.stat)
	Redirect("os.ReadDir", f.readDir)
	Redirect("os.IsNotExist", func(err error) bool { return errors.Is(err, fs.ErrNotExist) })
	Redirect("os.ReadFile", func(p string) ([]byte, error) {
		n := f.lookup(p)
		if n == nil || n.dir {
			return nil, notExist("open", p)
		}
		return append([]byte{}, n.data...), nil
	})
	Redirect("os.WriteFile", func(p string, data []byte, perm os.FileMode) error {
		h, err := f.openFile(p, os.O_WRONLY|os.O_CREATE|os.O_TRUNC, perm)
		if err != nil {
			return err
		}
		_, err = h.Write(data)
		if cerr := h.Close(); err == nil {
			err = cerr
		}
		return err
	})
	Redirect("path/filepath.Walk", f.walk)
	Redirect("golang.org/x/exp/mmap.Open", f.mmapOpen)
}

// CrashImage returns a new file system holding the state after the first k journalled operations
// (applied to an empty tree with the given pre-existing directories). Symbolic engine only.
func (f *FS) CrashImage(k int, base *FS) *FS {
	img := &FS{sym: true, Root: f.Root, FailWriteAt: -1, FailOpAt: -1, NoJournal: true, WalkReverse: f.WalkReverse}
	if base != nil {
		for _, n := range base.nodes {
			img.nodes = append(img.nodes, &node{path: n.path, dir: n.dir, data: append([]byte{}, n.data...)})
		}
	} else {
		img.nodes = append(img.nodes, &node{path: "/", dir: true}, &node{path: "/vfs", dir: true})
	}
	for i := 0; i < k && i < len(f.Journal); i++ {
		op := f.Journal[i]
		switch op.Kind {
		case OpCreate:
			if img.lookup(op.Path) == nil {
				img.nodes = append(img.nodes, &node{path: op.Path})
			}
		case OpWrite:
			n := img.lookup(op.Path)
			if n != nil {
				end := int(op.Off) + len(op.Data)
				for len(n.data) < end {
					n.data = append(n.data, 0)
				}
				copy(n.data[op.Off:], op.Data)
			}
		case OpTruncate:
			n := img.lookup(op.Path)
			if n != nil {
				if int(op.Size) <= len(n.data) {
					n.data = n.data[:op.Size]
				} else {
					for len(n.data) < int(op.Size) {
						n.data = append(n.data, 0)
					}
				}
			}
		case OpRename:
			img.rename(op.Path, op.Path2)
		case OpUnlink, OpRmdir:
			if n := img.lookup(op.Path); n != nil {
				img.removeNode(n)
			}
		case OpMkdir:
			if img.lookup(op.Path) == nil {
				img.nodes = append(img.nodes, &node{path: op.Path, dir: true})
			}
		case OpFsync:
		}
	}
	img.NoJournal = false
	return img
}

// Snapshot copies the current tree (used as the base of crash images).
func (f *FS) Snapshot() *FS {
	s := &FS{sym: true, Root: f.Root, FailWriteAt: -1, FailOpAt: -1}
	for _, n := range f.nodes {
		s.nodes = append(s.nodes, &node{path: n.path, dir: n.dir, data: append([]byte{}, n.data...)})
	}
	return s
}

// Activate makes this file system the one the redirects point to (after CrashImage).
func (f *FS) Activate() { f.install() }

// ---- native journalling (crash images natively): the harness reports the file-system calls it makes
// through seams the code under test offers (writer factories); see recordio.VJournaledWriter ----

func (f *FS) NoteCreate(p string) {
	if !f.sym {
		f.journal(Op{Kind: OpCreate, Path: p})
	}
}

func (f *FS) NoteWrite(p string, off int64, b []byte) {
	if !f.sym {
		f.journal(Op{Kind: OpWrite, Path: p, Off: off, Data: append([]byte{}, b...)})
	}
}

// NativeCrashImage materialises the first k journalled operations in a fresh temporary directory
// (paths are re-rooted from f.Root to the new root) and returns a file system rooted there.
func (f *FS) NativeCrashImage(k int, base *FS, dirs []string) *FS {
	d, err := os.MkdirTemp(tmpBase, "verif-img-")
	if err != nil {
		panic(err)
	}
	img := &FS{Root: d, FailWriteAt: -1, FailOpAt: -1}
	reroot := func(p string) string { return filepath.Join(d, strings.TrimPrefix(p, f.Root)) }
	if base != nil {
		filepath.Walk(base.Root, func(p string, info os.FileInfo, err error) error {
			if err != nil {
				return nil
			}
			t := filepath.Join(d, strings.TrimPrefix(p, base.Root))
			if info.IsDir() {
				os.MkdirAll(t, 0o777)
			} else if b, err := os.ReadFile(p); err == nil {
				os.WriteFile(t, b, 0o666)
			}
			return nil
		})
	}
	for _, dir := range dirs {
		os.MkdirAll(reroot(dir), 0o777)
	}
	for i := 0; i < k && i < len(f.Journal); i++ {
		op := f.Journal[i]
		switch op.Kind {
		case OpCreate:
			fh, err := os.OpenFile(reroot(op.Path), os.O_CREATE|os.O_WRONLY, 0o666)
			if err == nil {
				fh.Close()
			}
		case OpWrite:
			fh, err := os.OpenFile(reroot(op.Path), os.O_CREATE|os.O_WRONLY, 0o666)
			if err == nil {
				fh.WriteAt(op.Data, op.Off)
				fh.Close()
			}
		case OpMkdir:
			os.MkdirAll(reroot(op.Path), 0o777)
		case OpRename:
			os.Rename(reroot(op.Path), reroot(op.Path2))
		case OpUnlink, OpRmdir:
			os.Remove(reroot(op.Path))
		case OpTruncate:
			os.Truncate(reroot(op.Path), op.Size)
		}
	}
	return img
}

// Image returns the crash image after k journalled operations in either mode. dirs are directories
// that exist from the start (created before journalling began).
func (f *FS) Image(k int, base *FS, dirs []string) *FS {
	if f.sym {
		img := f.CrashImage(k, base)
		img.Activate()
		return img
	}
	return f.NativeCrashImage(k, base, dirs)
}

// Rebase maps a path of f to the same relative path in img.
func (f *FS) Rebase(img *FS, p string) string {
	return filepath.Join(img.Root, strings.TrimPrefix(p, f.Root))
}

// Base captures the tree as it is now, to replay journal prefixes on (symbolic: snapshot, native: copy).
func (f *FS) Base() *FS {
	f.NotePreexisting()
	if f.sym {
		return f.Snapshot()
	}
	return f.CopyTree()
}

// OpenCount is the number of open descriptors and memory mappings under the root (symbolic: handles of the
// model file system; native: /proc/self/fd and /proc/self/maps).
func (f *FS) OpenCount() int {
	if f.sym {
		return f.OpenHandles + f.OpenMaps
	}
	n := 0
	if es, err := os.ReadDir("/proc/self/fd"); err == nil {
		for _, e := range es {
			if t, err := os.Readlink("/proc/self/fd/" + e.Name()); err == nil && strings.HasPrefix(t, f.Root+"/") {
				n++
			}
		}
	}
	if b, err := os.ReadFile("/proc/self/maps"); err == nil {
		for _, l := range strings.Split(string(b), "\n") {
			if strings.Contains(l, f.Root+"/") {
				n++
			}
		}
	}
	return n
}

// ArmWriteFault makes the k-th write call from now (0-based, on any file) fail; symbolic engine only.
func (f *FS) ArmWriteFault(k int) {
	f.FailWriteAt = f.writes + k
	f.faultArmedAt = f.writes
}

// FaultHit reports whether the armed write failure has been delivered.
func (f *FS) FaultHit() bool { return f.FailWriteAt >= 0 && f.writes > f.FailWriteAt }

// DisarmWriteFault switches fault injection off again.
func (f *FS) DisarmWriteFault() { f.FailWriteAt = -1 }

// tmpBase is where native runs create their directories ("" = the default temporary directory).
var tmpBase string

// ListNewestFirst (native runs): create the directories of this run on a file system that lists directory
// entries newest first (tmpfs: /dev/shm), if there is one; os.RemoveAll and friends then visit newer files
// before older ones, like the model file system with WalkReverse. Without such a file system nothing changes.
func ListNewestFirst(on bool) {
	tmpBase = ""
	if !on || Symbolic() {
		return
	}
	d, err := os.MkdirTemp("/dev/shm", "verif-probe-")
	if err != nil {
		return
	}
	defer os.RemoveAll(d)
	os.WriteFile(filepath.Join(d, "a"), nil, 0o666)
	os.WriteFile(filepath.Join(d, "b"), nil, 0o666)
	f, err := os.Open(d)
	if err != nil {
		return
	}
	names, _ := f.Readdirnames(-1)
	f.Close()
	if len(names) == 2 && names[0] == "b" {
		tmpBase = "/dev/shm"
	}
}
