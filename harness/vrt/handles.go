//go:build verif

package vrt

import (
	"os"

	"golang.org/x/exp/mmap"
)

// HandleFile returns a *os.File whose methods are dispatched to obj's methods
// of the same name (symbolic engine only). INTERCEPTED.
func HandleFile(obj any) *os.File { panic("vrt.HandleFile is only available under the symbolic engine") }

// HandleMmap is the same for *mmap.ReaderAt. INTERCEPTED.
func HandleMmap(obj any) *mmap.ReaderAt {
	panic("vrt.HandleMmap is only available under the symbolic engine")
}

// HandleTarget returns the object behind a handle (nil if f is a real file). INTERCEPTED.
func HandleTarget(f *os.File) any { return nil }
