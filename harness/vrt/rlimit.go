//go:build verif

package vrt

import (
	"os"
	"os/signal"
	"path/filepath"
	"syscall"
)

// Native fault injection for the whole-database fault harnesses (the model file system has its own: ArmOpFault).
//
// LimitFileSize(n) makes every write that would extend any regular file beyond n bytes fail from now on (the
// part up to n is written, the rest fails with EFBIG: a short write followed by an error, which is what a full
// disk looks like) until UnlimitFileSize is called. It is RLIMIT_FSIZE with SIGXFSZ ignored, so it applies to the
// whole test process: arm it only around the call under test.
func LimitFileSize(n int64) {
	signal.Ignore(syscall.SIGXFSZ)
	var cur syscall.Rlimit
	if err := syscall.Getrlimit(syscall.RLIMIT_FSIZE, &cur); err != nil {
		panic(err)
	}
	cur.Cur = uint64(n)
	if err := syscall.Setrlimit(syscall.RLIMIT_FSIZE, &cur); err != nil {
		panic(err)
	}
}

func UnlimitFileSize() {
	var cur syscall.Rlimit
	if err := syscall.Getrlimit(syscall.RLIMIT_FSIZE, &cur); err != nil {
		panic(err)
	}
	cur.Cur = cur.Max
	if err := syscall.Setrlimit(syscall.RLIMIT_FSIZE, &cur); err != nil {
		panic(err)
	}
}

// BlockPath puts a non-empty directory at p, so that creating a file there, or renaming a directory onto it,
// fails; UnblockPath removes it again.
func BlockPath(p string) {
	if err := os.MkdirAll(filepath.Join(p, "verif-blocker"), 0o777); err != nil {
		panic(err)
	}
}

func UnblockPath(p string) {
	os.Remove(filepath.Join(p, "verif-blocker"))
	os.Remove(p)
}

// LargestFileUnder returns the size of the largest regular file under dir whose path is not in before, and the
// set of all paths (to be passed as before next time).
func LargestFileUnder(dir string, before map[string]bool) (int64, map[string]bool) {
	seen := map[string]bool{}
	var max int64
	filepath.Walk(dir, func(p string, info os.FileInfo, err error) error {
		if err != nil {
			return nil
		}
		seen[p] = true
		if !info.IsDir() && !before[p] && info.Size() > max {
			max = info.Size()
		}
		return nil
	})
	return max, seen
}
