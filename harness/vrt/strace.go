//go:build verif

package vrt

// Native journalling of the file-system calls the real build makes: the test process lets strace attach to
// itself, runs the session, and turns the system-call log into the same journal the model file system keeps
// under the symbolic engine. Crash images are then built from journal prefixes in a fresh directory and the
// real recovery code is run on them. Under the symbolic engine all of this is a no-op: the model file system
// journals by itself.

import (
	"bufio"
	"fmt"
	"os"
	"os/exec"
	"path/filepath"
	"regexp"
	"strconv"
	"strings"
	"time"
)

type traceState struct {
	cmd   *exec.Cmd
	log   string
	marks map[string]int // marker label -> journal length when it was emitted
}

const markDir = "/nonexistent-vmark"

var retRe *regexp.Regexp // compiled on first native use (package initialisers also run under the engine)

// TraceStart begins journalling (native: attach strace to this process).
func (f *FS) TraceStart() {
	f.Journal = nil
	f.SyncMarks = nil
	f.marks = map[string]int{}
	if f.sym {
		return
	}
	lf, err := os.CreateTemp("", "verif-strace-*.log")
	if err != nil {
		panic(err)
	}
	lf.Close()
	os.Remove(lf.Name())
	cmd := exec.Command("strace", "-f", "-p", strconv.Itoa(os.Getpid()), "-o", lf.Name(), "-s", "1000000", "-xx",
		"-e", "trace=openat,write,pwrite64,lseek,mkdirat,mkdir,rename,renameat,renameat2,unlink,unlinkat,ftruncate,fsync,fdatasync,close")
	if err := cmd.Start(); err != nil {
		panic("cannot start strace: " + err.Error())
	}
	f.tr = &traceState{cmd: cmd, log: lf.Name()}
	// wait until strace is attached: a marker must show up in the log
	attached := false
	for i := 0; i < 6000; i++ {
		os.Mkdir(markDir+"/attach", 0o777)
		if b, err := os.ReadFile(lf.Name()); err == nil && strings.Contains(string(b), hexEscape(markDir+"/attach")) {
			attached = true
			break
		}
		time.Sleep(5 * time.Millisecond)
	}
	if !attached {
		panic("strace did not attach within 30 s")
	}
	// strace attaches the threads of the process one by one: give it time to reach all of them
	time.Sleep(150 * time.Millisecond)
	os.Mkdir(markDir+"/begin", 0o777)
}

func hexEscape(s string) string {
	var sb strings.Builder
	for i := 0; i < len(s); i++ {
		fmt.Fprintf(&sb, "\\x%02x", s[i])
	}
	return sb.String()
}

// Mark notes a point in the journal (for example "call 3 returned") and returns a handle for Index.
func (f *FS) Mark(label string) string {
	if f.sym {
		if f.marks == nil {
			f.marks = map[string]int{}
		}
		f.marks[label] = len(f.Journal)
		return label
	}
	if f.tr != nil {
		os.Mkdir(markDir+"/m-"+label, 0o777)
	}
	return label
}

// Index is the journal length at the time of the mark (-1 if the mark was never emitted).
func (f *FS) Index(label string) int {
	if v, ok := f.marks[label]; ok {
		return v
	}
	return -1
}

// TraceStop ends journalling; natively the system-call log is parsed into f.Journal.
func (f *FS) TraceStop() {
	if f.sym || f.tr == nil {
		return
	}
	os.Mkdir(markDir+"/end", 0o777)
	// wait until the end marker is in the log, then detach
	seenEnd := false
	for i := 0; i < 6000; i++ {
		if b, err := os.ReadFile(f.tr.log); err == nil && strings.Contains(string(b), hexEscape(markDir+"/end")) {
			seenEnd = true
			break
		}
		time.Sleep(5 * time.Millisecond)
	}
	if !seenEnd {
		panic("strace log does not contain the end marker after 30 s")
	}
	f.tr.cmd.Process.Signal(os.Interrupt)
	f.tr.cmd.Wait()
	f.parseTrace(f.tr.log)
	if keep := os.Getenv("VERIF_KEEP_TRACE"); keep != "" {
		if b, err := os.ReadFile(f.tr.log); err == nil {
			os.WriteFile(keep, b, 0o666)
		}
	}
	os.Remove(f.tr.log)
	f.tr = nil
}

func unescape(s string) string {
	// strace -xx: every byte as \xNN
	var out []byte
	for i := 0; i < len(s); {
		if s[i] == '\\' && i+3 < len(s)+0 && s[i+1] == 'x' {
			v, err := strconv.ParseUint(s[i+2:i+4], 16, 8)
			if err == nil {
				out = append(out, byte(v))
				i += 4
				continue
			}
		}
		out = append(out, s[i])
		i++
	}
	return string(out)
}

// splitArgs splits the argument list of a traced call at top-level commas (strings are quoted).
func splitArgs(s string) []string {
	var args []string
	depth := 0
	inStr := false
	start := 0
	for i := 0; i < len(s); i++ {
		c := s[i]
		switch {
		case c == '"':
			inStr = !inStr
		case inStr:
		case c == '(' || c == '{' || c == '[':
			depth++
		case c == ')' || c == '}' || c == ']':
			depth--
		case c == ',' && depth == 0:
			args = append(args, strings.TrimSpace(s[start:i]))
			start = i + 1
		}
	}
	if start < len(s) {
		args = append(args, strings.TrimSpace(s[start:]))
	}
	return args
}

func strArg(a string) string {
	a = strings.TrimSpace(a)
	if i := strings.IndexByte(a, '"'); i >= 0 {
		j := strings.LastIndexByte(a, '"')
		if j > i {
			return unescape(a[i+1 : j])
		}
	}
	return a
}

func (f *FS) parseTrace(logPath string) {
	fh, err := os.Open(logPath)
	if err != nil {
		panic(err)
	}
	defer fh.Close()
	if retRe == nil {
		retRe = regexp.MustCompile(`\)\s+= `)
	}
	sc := bufio.NewScanner(fh)
	sc.Buffer(make([]byte, 1<<20), 64<<20)
	pending := map[string]string{} // pid -> unfinished prefix
	fdPath := map[int]string{}
	fdPos := map[int]int64{}
	exists := map[string]bool{}
	active := false
	under := func(p string) bool { return p == f.Root || strings.HasPrefix(p, f.Root+"/") }
	resolve := func(dirfd, p string) string {
		if filepath.IsAbs(p) {
			return filepath.Clean(p)
		}
		if dirfd == "AT_FDCWD" {
			wd, _ := os.Getwd()
			return filepath.Join(wd, p)
		}
		n, _ := strconv.Atoi(dirfd)
		return filepath.Join(fdPath[n], p)
	}
	for sc.Scan() {
		line := sc.Text()
		sp := strings.IndexByte(line, ' ')
		if sp < 0 {
			continue
		}
		pid := line[:sp]
		rest := strings.TrimSpace(line[sp+1:])
		if strings.HasSuffix(rest, "<unfinished ...>") {
			pending[pid] = strings.TrimSuffix(rest, "<unfinished ...>")
			continue
		}
		if strings.HasPrefix(rest, "<... ") {
			i := strings.Index(rest, "resumed>")
			if i < 0 {
				continue
			}
			rest = pending[pid] + rest[i+len("resumed>"):]
			delete(pending, pid)
		}
		op := strings.IndexByte(rest, '(')
		// "name(args)   = ret ..." - strace pads short calls with spaces before the equals sign
		loc := retRe.FindAllStringIndex(rest, -1)
		if op < 0 || len(loc) == 0 {
			continue
		}
		eq := loc[len(loc)-1][0]
		name := rest[:op]
		if eq < op {
			continue
		}
		args := splitArgs(rest[op+1 : eq])
		retS := strings.Fields(rest[loc[len(loc)-1][1]:])
		ret := int64(-1)
		if len(retS) > 0 {
			ret, _ = strconv.ParseInt(retS[0], 0, 64)
		}
		// markers
		if (name == "mkdirat" || name == "mkdir") && len(args) >= 2 {
			p := strArg(args[len(args)-2])
			if strings.HasPrefix(p, markDir+"/") {
				lbl := strings.TrimPrefix(p, markDir+"/")
				switch {
				case lbl == "begin":
					active = true
				case lbl == "end":
					active = false
				case strings.HasPrefix(lbl, "m-"):
					f.marks[strings.TrimPrefix(lbl, "m-")] = len(f.Journal)
				}
				continue
			}
		}
		if ret < 0 {
			continue
		}
		switch name {
		case "openat":
			if len(args) < 3 {
				continue
			}
			p := resolve(args[0], strArg(args[1]))
			fdPath[int(ret)] = p
			fdPos[int(ret)] = 0
			if active && under(p) && strings.Contains(args[2], "O_CREAT") {
				if !exists[p] {
					if _, err := os.Lstat(p); err != nil || true {
						// created now unless it existed before tracing began: decided by the set of paths seen
					}
					if !f.preexisting[p] {
						f.journal(Op{Kind: OpCreate, Path: p})
					}
					exists[p] = true
				}
				if strings.Contains(args[2], "O_TRUNC") {
					f.journal(Op{Kind: OpTruncate, Path: p, Size: 0})
				}
			}
		case "close":
			n, _ := strconv.Atoi(args[0])
			delete(fdPath, n)
			delete(fdPos, n)
		case "lseek":
			n, _ := strconv.Atoi(args[0])
			fdPos[n] = ret
		case "write":
			n, _ := strconv.Atoi(args[0])
			p := fdPath[n]
			if active && under(p) {
				data := []byte(strArg(args[1]))
				if int64(len(data)) > ret {
					data = data[:ret]
				}
				f.journal(Op{Kind: OpWrite, Path: p, Off: fdPos[n], Data: data})
			}
			fdPos[n] += ret
		case "pwrite64":
			n, _ := strconv.Atoi(args[0])
			p := fdPath[n]
			if active && under(p) {
				off, _ := strconv.ParseInt(args[3], 0, 64)
				data := []byte(strArg(args[1]))
				if int64(len(data)) > ret {
					data = data[:ret]
				}
				f.journal(Op{Kind: OpWrite, Path: p, Off: off, Data: data})
			}
		case "ftruncate":
			n, _ := strconv.Atoi(args[0])
			p := fdPath[n]
			if active && under(p) {
				sz, _ := strconv.ParseInt(args[1], 0, 64)
				f.journal(Op{Kind: OpTruncate, Path: p, Size: sz})
			}
		case "fsync", "fdatasync":
			n, _ := strconv.Atoi(args[0])
			if active && under(fdPath[n]) {
				f.SyncMarks = append(f.SyncMarks, len(f.Journal))
				f.SyncPaths = append(f.SyncPaths, fdPath[n])
			}
		case "mkdirat":
			p := resolve(args[0], strArg(args[1]))
			if active && under(p) {
				f.journal(Op{Kind: OpMkdir, Path: p})
				exists[p] = true
			}
		case "mkdir":
			p := filepath.Clean(strArg(args[0]))
			if active && under(p) {
				f.journal(Op{Kind: OpMkdir, Path: p})
			}
		case "rename":
			a, b := filepath.Clean(strArg(args[0])), filepath.Clean(strArg(args[1]))
			if active && (under(a) || under(b)) {
				f.journal(Op{Kind: OpRename, Path: a, Path2: b})
			}
		case "renameat", "renameat2":
			a, b := resolve(args[0], strArg(args[1])), resolve(args[2], strArg(args[3]))
			if active && (under(a) || under(b)) {
				f.journal(Op{Kind: OpRename, Path: a, Path2: b})
				for p := range exists {
					if p == a || strings.HasPrefix(p, a+"/") {
						delete(exists, p)
						exists[b+p[len(a):]] = true
					}
				}
			}
		case "unlink":
			p := filepath.Clean(strArg(args[0]))
			if active && under(p) {
				f.journal(Op{Kind: OpUnlink, Path: p})
				delete(exists, p)
			}
		case "unlinkat":
			p := resolve(args[0], strArg(args[1]))
			if active && under(p) {
				if strings.Contains(args[2], "AT_REMOVEDIR") {
					f.journal(Op{Kind: OpRmdir, Path: p})
				} else {
					f.journal(Op{Kind: OpUnlink, Path: p})
				}
				delete(exists, p)
			}
		}
	}
}

// CrashPoints returns the journal prefixes to examine: under the symbolic engine one forked index, natively all.
func (f *FS) CrashPoints(key string) []int {
	n := len(f.Journal)
	if f.sym {
		return []int{Range(key, 0, n)}
	}
	out := make([]int, 0, n+1)
	for k := 0; k <= n; k++ {
		out = append(out, k)
	}
	return out
}

// NotePreexisting records the files that exist before journalling starts (native runs).
func (f *FS) NotePreexisting() {
	f.preexisting = map[string]bool{}
	if f.sym {
		return
	}
	filepath.Walk(f.Root, func(p string, info os.FileInfo, err error) error {
		if err == nil {
			f.preexisting[p] = true
		}
		return nil
	})
}

// CopyTree copies the native directory tree to a new temporary directory and returns a file system rooted
// there (the base on which journal prefixes are replayed).
func (f *FS) CopyTree() *FS {
	d, err := os.MkdirTemp(tmpBase, "verif-base-")
	if err != nil {
		panic(err)
	}
	filepath.Walk(f.Root, func(p string, info os.FileInfo, err error) error {
		if err != nil {
			return nil
		}
		t := filepath.Join(d, strings.TrimPrefix(p, f.Root))
		if info.IsDir() {
			os.MkdirAll(t, 0o777)
		} else if b, err := os.ReadFile(p); err == nil {
			os.WriteFile(t, b, 0o666)
		}
		return nil
	})
	return &FS{Root: d, FailWriteAt: -1}
}

// Watcher returns a file system object that can journal the same directory tree independently: natively a second
// view of the same root whose TraceStart/Mark/TraceStop use the strace journal (file-system calls and fsyncs as the
// kernel saw them) while f keeps the journal reported through writer seams; under the engine f itself.
func (f *FS) Watcher() *FS {
	if f.sym {
		return f
	}
	return &FS{Root: f.Root, FailWriteAt: -1, FailOpAt: -1}
}
