//go:build verif

package vrt

// Stand-in for protobuf encoding under the symbolic engine (protobuf-go is reflection + unsafe and cannot be
// interpreted): an injective, length-prefixed fixed-width codec for the four message types the repository
// writes (all of their fields, the legacy string fields of the WAL records included). Properties of the real encoding that the code under test relies on are kept: empty input decodes to
// the zero message without error, an empty bytes field decodes to nil, anything malformed is an error,
// a string field that is not valid UTF-8 is refused by Marshal and Unmarshal.
// Natively the real protobuf library runs.

import (
	"encoding/binary"
	"errors"
	"unicode/utf8"

	sdb "github.com/thomasjungblut/go-sstables/simpledb/proto"
	sst "github.com/thomasjungblut/go-sstables/sstables/proto"
	"google.golang.org/protobuf/proto"
)

var ErrCodec = errors.New("codec: cannot parse")
var ErrInvalidUTF8 = errors.New("codec: string field contains invalid UTF-8")

func putBytes(out []byte, b []byte) []byte {
	out = append(out, byte(len(b)), byte(len(b)>>8))
	return append(out, b...)
}

func putU64(out []byte, v uint64) []byte { return binary.LittleEndian.AppendUint64(out, v) }

type dec struct {
	b   []byte
	bad bool
}

func (d *dec) bytes() []byte {
	if d.bad || len(d.b) < 2 {
		d.bad = true
		return nil
	}
	n := int(Concrete(int(d.b[0]))) | int(Concrete(int(d.b[1])))<<8
	if len(d.b) < 2+n {
		d.bad = true
		return nil
	}
	v := d.b[2 : 2+n]
	d.b = d.b[2+n:]
	if n == 0 {
		return nil
	}
	return append([]byte{}, v...)
}

func (d *dec) u64() uint64 {
	if d.bad || len(d.b) < 8 {
		d.bad = true
		return 0
	}
	v := binary.LittleEndian.Uint64(d.b)
	d.b = d.b[8:]
	return v
}

func CodecMarshal(m proto.Message) ([]byte, error) {
	switch x := m.(type) {
	case *sst.IndexEntry:
		if len(x.Key) > 65535 {
			return nil, ErrCodec
		}
		out := []byte{1}
		out = putBytes(out, x.Key)
		out = putU64(out, x.ValueOffset)
		out = putU64(out, x.Checksum)
		return out, nil
	case *sst.DataEntry:
		if len(x.Value) > 65535 {
			return nil, ErrCodec
		}
		return putBytes([]byte{6}, x.Value), nil
	case *sst.MetaData:
		out := []byte{2}
		out = putU64(out, x.NumRecords)
		out = putBytes(out, x.MinKey)
		out = putBytes(out, x.MaxKey)
		out = putU64(out, x.DataBytes)
		out = putU64(out, x.IndexBytes)
		out = putU64(out, x.TotalBytes)
		out = putU64(out, uint64(x.Version))
		out = putU64(out, x.SkippedRecords)
		out = putU64(out, x.NullValues)
		return out, nil
	case *sdb.WalMutation:
		switch mu := x.Mutation.(type) {
		case *sdb.WalMutation_Addition:
			// proto3 string fields must be valid UTF-8: the real Marshal refuses anything else
			if !utf8.ValidString(mu.Addition.Key) || !utf8.ValidString(mu.Addition.Value) {
				return nil, ErrInvalidUTF8
			}
			out := []byte{3}
			out = putBytes(out, mu.Addition.KeyBytes)
			out = putBytes(out, mu.Addition.ValueBytes)
			out = putBytes(out, []byte(mu.Addition.Key))
			out = putBytes(out, []byte(mu.Addition.Value))
			return out, nil
		case *sdb.WalMutation_DeleteTombStone:
			if !utf8.ValidString(mu.DeleteTombStone.Key) {
				return nil, ErrInvalidUTF8
			}
			out := []byte{4}
			out = putBytes(out, mu.DeleteTombStone.KeyBytes)
			out = putBytes(out, []byte(mu.DeleteTombStone.Key))
			return out, nil
		}
		return []byte{}, nil
	case *sdb.CompactionMetadata:
		out := []byte{5}
		out = putBytes(out, []byte(x.WritePath))
		out = putBytes(out, []byte(x.ReplacementPath))
		out = append(out, byte(len(x.SstablePaths)))
		for _, p := range x.SstablePaths {
			out = putBytes(out, []byte(p))
		}
		return out, nil
	}
	return nil, ErrCodec
}

func CodecUnmarshal(b []byte, m proto.Message) error {
	switch x := m.(type) {
	case *sst.IndexEntry:
		*x = sst.IndexEntry{}
		if len(b) == 0 {
			return nil
		}
		if b[0] != 1 {
			return ErrCodec
		}
		d := &dec{b: b[1:]}
		x.Key = d.bytes()
		x.ValueOffset = d.u64()
		x.Checksum = d.u64()
		if d.bad || len(d.b) != 0 {
			return ErrCodec
		}
		return nil
	case *sst.DataEntry:
		*x = sst.DataEntry{}
		if len(b) == 0 {
			return nil
		}
		if b[0] != 6 {
			return ErrCodec
		}
		d := &dec{b: b[1:]}
		x.Value = d.bytes()
		if d.bad || len(d.b) != 0 {
			return ErrCodec
		}
		return nil
	case *sst.MetaData:
		*x = sst.MetaData{}
		if len(b) == 0 {
			return nil
		}
		if b[0] != 2 {
			return ErrCodec
		}
		d := &dec{b: b[1:]}
		x.NumRecords = d.u64()
		x.MinKey = d.bytes()
		x.MaxKey = d.bytes()
		x.DataBytes = d.u64()
		x.IndexBytes = d.u64()
		x.TotalBytes = d.u64()
		x.Version = uint32(d.u64())
		x.SkippedRecords = d.u64()
		x.NullValues = d.u64()
		if d.bad || len(d.b) != 0 {
			return ErrCodec
		}
		return nil
	case *sdb.WalMutation:
		*x = sdb.WalMutation{}
		if len(b) == 0 {
			return nil
		}
		d := &dec{b: b[1:]}
		switch b[0] {
		case 3:
			k := d.bytes()
			v := d.bytes()
			ks := string(d.bytes())
			vs := string(d.bytes())
			if !utf8.ValidString(ks) || !utf8.ValidString(vs) {
				return ErrInvalidUTF8
			}
			x.Mutation = &sdb.WalMutation_Addition{Addition: &sdb.UpsertMutation{KeyBytes: k, ValueBytes: v, Key: ks, Value: vs}}
		case 4:
			k := d.bytes()
			ks := string(d.bytes())
			if !utf8.ValidString(ks) {
				return ErrInvalidUTF8
			}
			x.Mutation = &sdb.WalMutation_DeleteTombStone{DeleteTombStone: &sdb.DeleteTombstoneMutation{KeyBytes: k, Key: ks}}
		default:
			return ErrCodec
		}
		if d.bad || len(d.b) != 0 {
			return ErrCodec
		}
		return nil
	case *sdb.CompactionMetadata:
		*x = sdb.CompactionMetadata{}
		if len(b) == 0 {
			return nil
		}
		if b[0] != 5 {
			return ErrCodec
		}
		d := &dec{b: b[1:]}
		x.WritePath = string(d.bytes())
		x.ReplacementPath = string(d.bytes())
		if d.bad || len(d.b) < 1 {
			return ErrCodec
		}
		n := int(Concrete(int(d.b[0])))
		d.b = d.b[1:]
		for i := 0; i < n; i++ {
			x.SstablePaths = append(x.SstablePaths, string(d.bytes()))
		}
		if d.bad || len(d.b) != 0 {
			return ErrCodec
		}
		return nil
	}
	return ErrCodec
}

// CodecUnmarshalMerge is Unmarshal with UnmarshalOptions.Merge: the message is not reset; proto3 leaves zero valued
// fields off the wire, so only the non-zero fields of the encoded message overwrite what the target holds.
func CodecUnmarshalMerge(b []byte, m proto.Message) error {
	switch x := m.(type) {
	case *sst.IndexEntry:
		var t sst.IndexEntry
		if err := CodecUnmarshal(b, &t); err != nil {
			return err
		}
		if len(t.Key) > 0 {
			x.Key = t.Key
		}
		if t.ValueOffset != 0 {
			x.ValueOffset = t.ValueOffset
		}
		if t.Checksum != 0 {
			x.Checksum = t.Checksum
		}
		return nil
	case *sst.MetaData:
		var t sst.MetaData
		if err := CodecUnmarshal(b, &t); err != nil {
			return err
		}
		if t.NumRecords != 0 {
			x.NumRecords = t.NumRecords
		}
		if len(t.MinKey) > 0 {
			x.MinKey = t.MinKey
		}
		if len(t.MaxKey) > 0 {
			x.MaxKey = t.MaxKey
		}
		if t.DataBytes != 0 {
			x.DataBytes = t.DataBytes
		}
		if t.IndexBytes != 0 {
			x.IndexBytes = t.IndexBytes
		}
		if t.TotalBytes != 0 {
			x.TotalBytes = t.TotalBytes
		}
		if t.Version != 0 {
			x.Version = t.Version
		}
		if t.SkippedRecords != 0 {
			x.SkippedRecords = t.SkippedRecords
		}
		if t.NullValues != 0 {
			x.NullValues = t.NullValues
		}
		return nil
	}
	// the other messages are never decoded into a reused target by the code under test
	return CodecUnmarshal(b, m)
}

// InstallCodec redirects proto.Marshal / proto.Unmarshal (symbolic engine only).
func InstallCodec() {
	if !Symbolic() {
		return
	}
	Redirect("google.golang.org/protobuf/proto.Marshal", CodecMarshal)
	Redirect("google.golang.org/protobuf/proto.Unmarshal", CodecUnmarshal)
	Redirect("(google.golang.org/protobuf/proto.UnmarshalOptions).Unmarshal",
		func(o proto.UnmarshalOptions, b []byte, m proto.Message) error {
			if o.Merge {
				return CodecUnmarshalMerge(b, m)
			}
			return CodecUnmarshal(b, m)
		})
}
