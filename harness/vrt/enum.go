//go:build verif

package vrt

import (
	"go/ast"
	"go/parser"
	"go/token"
	"os"
	"strconv"
	"strings"
)

// EnumValues returns the values of the integer constants declared with the named type in the
// package. INTERCEPTED (the engine reads them from the SSA package); natively the package's
// source in the current directory (go test runs in the package directory) is parsed.
func EnumValues(pkgPath, typeName string) []int64 {
	var out []int64
	fset := token.NewFileSet()
	pkgs, err := parser.ParseDir(fset, ".", func(fi os.FileInfo) bool {
		return !strings.HasSuffix(fi.Name(), "_test.go") && !strings.HasPrefix(fi.Name(), "zz_verif")
	}, 0)
	if err != nil {
		panic(err)
	}
	for _, p := range pkgs {
		for _, f := range p.Files {
			for _, d := range f.Decls {
				gd, ok := d.(*ast.GenDecl)
				if !ok || gd.Tok != token.CONST {
					continue
				}
				for _, sp := range gd.Specs {
					vs := sp.(*ast.ValueSpec)
					id, ok := vs.Type.(*ast.Ident)
					if !ok || id.Name != typeName {
						continue
					}
					for _, v := range vs.Values {
						if bl, ok := v.(*ast.BasicLit); ok {
							n, err := strconv.ParseInt(bl.Value, 0, 64)
							if err == nil {
								out = append(out, n)
							}
						}
					}
				}
			}
		}
	}
	return out
}
