//go:build verif

package vrt

import (
	"encoding/json"
	"fmt"
	"os"
	"runtime/debug"
	"strings"
)

type replayCase struct {
	Harness string            `json:"harness"`
	Vector  map[string]uint64 `json:"vector"`
}

type replayResult struct {
	Index    int      `json:"index"`
	Harness  string   `json:"harness"`
	Failures []string `json:"failures"`
	Panic    string   `json:"panic,omitempty"`
	Where    string   `json:"where,omitempty"`
	Assume   bool     `json:"assume_failed,omitempty"`
	Expected string   `json:"expected_panic,omitempty"`
	Trace    []string `json:"trace"`
	Reached  []string `json:"reached"`
	Tags     []string `json:"tags"`
}

// RunReplay runs the cases of $VERIF_REPLAY (a JSON list) natively and prints
// one "VRT-RESULT {json}" line per case.
func RunReplay(harnesses map[string]func()) {
	p := os.Getenv("VERIF_REPLAY")
	if p == "" {
		fmt.Println("VRT-NOCASES")
		return
	}
	b, err := os.ReadFile(p)
	if err != nil {
		panic(err)
	}
	var cases []replayCase
	if err := json.Unmarshal(b, &cases); err != nil {
		panic(err)
	}
	for i, c := range cases {
		name := c.Harness
		if j := strings.LastIndex(name, "."); j >= 0 {
			name = name[j+1:]
		}
		h := harnesses[name]
		res := replayResult{Index: i, Harness: c.Harness}
		if h == nil {
			res.Panic = "unknown harness " + name
		} else {
			Reset(c.Vector)
			func() {
				defer func() {
					if r := recover(); r != nil {
						if _, ok := r.(assumeFailed); ok {
							res.Assume = true
							return
						}
						res.Panic = fmt.Sprint(r)
						st := strings.Split(string(debug.Stack()), "\n")
						for _, l := range st {
							if strings.Contains(l, "go-sstables") && !strings.Contains(l, "/vrt/") && strings.Contains(l, ".go:") {
								res.Where = strings.TrimSpace(l)
								break
							}
						}
					}
				}()
				h()
			}()
			res.Failures = append([]string{}, Failures...)
			res.Trace = append([]string{}, Traces...)
			res.Reached = append([]string{}, Reached...)
			res.Tags = append([]string{}, Tags...)
			res.Expected = expectP
		}
		out, _ := json.Marshal(res)
		fmt.Println("VRT-RESULT " + string(out))
	}
}
