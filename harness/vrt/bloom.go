//go:build verif

package vrt

// Stand-in for github.com/steakknife/bloomfilter under the symbolic engine: an exact set of 64 bit hashes.
// It has no false positives at all (the real filter has some) and, like the real one, no false negatives for
// hashes that were added; the property under test (C03) only forbids false negatives. What is kept exact is
// what the code under test contributes: which bytes are hashed with which function on the write and on the
// read side, and that the filter written next to a table is the one read back.

import (
	"encoding/binary"
	"hash"
	"os"

	"github.com/steakknife/bloomfilter"
)

type bloomState struct {
	f      *bloomfilter.Filter
	hashes []uint64
}

var blooms []*bloomState

func bloomOf(f *bloomfilter.Filter) *bloomState {
	for _, b := range blooms {
		if b.f == f {
			return b
		}
	}
	b := &bloomState{f: f}
	blooms = append(blooms, b)
	return b
}

func InstallBloom() {
	if !Symbolic() {
		return
	}
	blooms = nil
	const p = "github.com/steakknife/bloomfilter."
	Redirect(p+"NewOptimal", func(maxN uint64, fp float64) (*bloomfilter.Filter, error) {
		f := &bloomfilter.Filter{}
		bloomOf(f)
		return f, nil
	})
	Redirect("(*"+p+"Filter).Add", func(f *bloomfilter.Filter, h hash.Hash64) {
		b := bloomOf(f)
		b.hashes = append(b.hashes, h.Sum64())
	})
	Redirect("(*"+p+"Filter).Contains", func(f *bloomfilter.Filter, h hash.Hash64) bool {
		b := bloomOf(f)
		v := h.Sum64()
		found := false
		for _, x := range b.hashes {
			found = Or(found, x == v)
		}
		return found
	})
	Redirect("(*"+p+"Filter).WriteFile", func(f *bloomfilter.Filter, path string) (int64, error) {
		b := bloomOf(f)
		out := []byte{byte(len(b.hashes))}
		for _, x := range b.hashes {
			out = binary.LittleEndian.AppendUint64(out, x)
		}
		// like the real WriteFile: a failing create is reported; a failing write is not - its deferred
		// "err = w.Close()" overwrites the result of WriteTo, so the caller sees the result of Close
		w, err := os.Create(path)
		if err != nil {
			return -1, err
		}
		w.Write(out)
		return int64(len(out)), w.Close()
	})
	Redirect(p+"ReadFile", func(path string) (*bloomfilter.Filter, int64, error) {
		// like the real ReadFile: a failing open is reported; a damaged or short file is not - its deferred
		// "err = r.Close()" overwrites the result of ReadFrom, so the caller gets (nil, -1, nil) and goes on
		// without a filter
		if _, err := os.Stat(path); err != nil {
			return nil, -1, err
		}
		data, err := os.ReadFile(path)
		if err != nil {
			return nil, -1, nil
		}
		if len(data) < 1 {
			return nil, -1, nil
		}
		n := Concrete(int(data[0]))
		if len(data) != 1+8*n {
			return nil, -1, nil
		}
		f := &bloomfilter.Filter{}
		b := bloomOf(f)
		for i := 0; i < n; i++ {
			b.hashes = append(b.hashes, binary.LittleEndian.Uint64(data[1+8*i:]))
		}
		return f, int64(len(data)), nil
	})
}
